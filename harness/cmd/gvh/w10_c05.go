package main

import (
	"fmt"
	"os"
	"os/exec"
	"path/filepath"
	"sort"
	"strconv"
	"strings"
	"sync"
	"time"

	"gvh/internal/rng"
	"gvh/internal/scratch"
)

// c05Reach: the methods that carry field settings reach the converter in every way Go offers for putting a method into an
// interface: written in the converter interface itself (the control), or through an EMBEDDED interface that is declared in
// the file of the converter (before / after it), in another file of the package, in another package, as an interface literal,
// through a type alias, through two levels of embedding, or through two embedded interfaces next to each other.
//
// Oracle (property text of C05, no model involved: the model starts from the lines the implementation collected, so lines
// lost while they are collected are invisible to it): the run is refused with a diagnostic, or the generated code honours
// EVERY field setting written on a method – an ignored field stays unassigned, a mapped field holds the value at the named
// source path (nil when a pointer on the way is nil), a field without settings holds the same-named source field.  The struct
// pairs are derived so that most settings would be SILENTLY lost if they were dropped (the target field named by `map` /
// `ignore` also has a same-named source field of a convertible type); other instances add settings whose loss is an error.
// Judged through the binary, the generated code is compiled and executed on values with distinct leaves.

type reachTarget struct {
	Name, Type string
	Kind       string   // same | mapShadow | pathShadow | ptrPathShadow | ignoreShadow | mapRename | ignoreNoSource | missing
	Line       string   // the goverter line written for the field ("" = none)
	Src        []string // source path the field must hold (nil = the field stays unassigned)
}

type reachField struct{ Name, Type string }

type reachMethod struct {
	Name     string
	Pair     string // prefix of the struct names of the pair
	Fields   []reachField
	Targets  []reachTarget
	Flags    []string
	Embedded bool // reaches the converter through an embedded interface
	Slot     int  // which of the embedded interfaces of the variant carries it
	List     bool // the converter itself also declares List<Pair>([]S) []T, which reuses the method
}

type reachCase struct {
	ID      int
	Reach   string
	Dir     string
	Methods []*reachMethod
	Tree    scratch.Tree // the files of the case, relative to the module root
	TypePkg string       // import path suffix of the package of the structs
	Expect  map[string]string
	Lines   map[string]string // expectation key -> the setting it stems from
	res     scratch.Result
	gen     string
}

var reachVariants = []string{"direct", "embedded-same-file-after", "embedded-same-file-before", "embedded-other-file", "embedded-other-package",
	"embedded-literal", "embedded-alias-other-file", "embedded-two-level", "embedded-two-interfaces"}

var reachNested = []reachField{{"Street", "string"}, {"City", "string"}, {"Zip", "int"}}

func reachZero(t string) string {
	switch {
	case strings.HasPrefix(t, "*"):
		return "nil"
	case t == "int":
		return "0"
	}
	return `""`
}

// reachLeaf is the value at a leaf path of the idx-th argument: distinct for every (pair, path, idx).
func reachLeaf(pair string, path []string, typ string, idx int) string {
	key := pair + "." + strings.Join(path, ".")
	if typ == "int" {
		h := 7
		for _, c := range key {
			h = (h*31 + int(c)) % 100003
		}
		return strconv.Itoa(h*10 + idx + 1)
	}
	return strconv.Quote(key + "#" + strconv.Itoa(idx))
}

func reachMethodGen(r *rng.R, k int, silentOnly bool) *reachMethod {
	m := &reachMethod{Name: fmt.Sprintf("Convert%d", k), Pair: fmt.Sprintf("P%d", k)}
	strs := []string{"Name", "Title", "Label", "Code", "Note", "Alias", "Owner"}
	ints := []string{"Count", "Age", "Rank", "Size", "Level"}
	shuffle := func(xs []string) {
		for i := len(xs) - 1; i > 0; i-- {
			j := r.Intn(i + 1)
			xs[i], xs[j] = xs[j], xs[i]
		}
	}
	shuffle(strs)
	shuffle(ints)
	for _, n := range strs[:3+r.Intn(2)] {
		m.Fields = append(m.Fields, reachField{n, "string"})
	}
	for _, n := range ints[:2+r.Intn(2)] {
		m.Fields = append(m.Fields, reachField{n, "int"})
	}
	nestedOf := func(t string) string {
		var c []string
		for _, f := range reachNested {
			if f.Type == t {
				c = append(c, f.Name)
			}
		}
		return rng.Pick(r, c)
	}
	settings := 0
	for i, f := range m.Fields {
		var others []string
		for j, g := range m.Fields {
			if j != i && g.Type == f.Type {
				others = append(others, g.Name)
			}
		}
		x := r.Intn(100)
		switch {
		case x < 35:
			m.Targets = append(m.Targets, reachTarget{Name: f.Name, Type: f.Type, Kind: "same", Src: []string{f.Name}})
			continue
		case x < 58 && len(others) > 0:
			g := rng.Pick(r, others)
			m.Targets = append(m.Targets, reachTarget{Name: f.Name, Type: f.Type, Kind: "mapShadow", Line: "map " + g + " " + f.Name, Src: []string{g}})
		case x < 70:
			n := nestedOf(f.Type)
			m.Targets = append(m.Targets, reachTarget{Name: f.Name, Type: f.Type, Kind: "pathShadow", Line: "map N." + n + " " + f.Name, Src: []string{"N", n}})
		case x < 80:
			n := nestedOf(f.Type)
			m.Targets = append(m.Targets, reachTarget{Name: f.Name, Type: "*" + f.Type, Kind: "ptrPathShadow", Line: "map PN." + n + " " + f.Name, Src: []string{"PN", n}})
		default:
			m.Targets = append(m.Targets, reachTarget{Name: f.Name, Type: f.Type, Kind: "ignoreShadow", Line: "ignore " + f.Name})
		}
		settings++
	}
	if settings == 0 {
		t := &m.Targets[r.Intn(len(m.Targets))]
		t.Kind, t.Line, t.Src = "ignoreShadow", "ignore "+t.Name, nil
	}
	if !silentOnly {
		// settings whose loss cannot go unnoticed (the field has no same-named source)
		if r.Chance(60) {
			g := rng.Pick(r, m.Fields)
			m.Targets = append(m.Targets, reachTarget{Name: "Renamed", Type: g.Type, Kind: "mapRename", Line: "map " + g.Name + " Renamed", Src: []string{g.Name}})
		}
		if r.Chance(50) {
			m.Targets = append(m.Targets, reachTarget{Name: "Unset", Type: "string", Kind: "ignoreNoSource", Line: "ignore Unset"})
		}
		if r.Chance(40) {
			m.Flags = append(m.Flags, "ignoreMissing")
			m.Targets = append(m.Targets, reachTarget{Name: "Missing", Type: "int", Kind: "missing", Line: "ignoreMissing"})
		}
	}
	return m
}

func (m *reachMethod) types() string {
	var b strings.Builder
	fmt.Fprintf(&b, "type %sN struct {\n", m.Pair)
	for _, f := range reachNested {
		fmt.Fprintf(&b, "\t%s %s\n", f.Name, f.Type)
	}
	fmt.Fprintf(&b, "}\n\ntype %sS struct {\n", m.Pair)
	for _, f := range m.Fields {
		fmt.Fprintf(&b, "\t%s %s\n", f.Name, f.Type)
	}
	fmt.Fprintf(&b, "\tN %[1]sN\n\tPN *%[1]sN\n}\n\ntype %[1]sT struct {\n", m.Pair)
	for _, t := range m.Targets {
		fmt.Fprintf(&b, "\t%s %s\n", t.Name, t.Type)
	}
	b.WriteString("}\n\n")
	return b.String()
}

// decl is the method with its setting lines, as written inside an interface; q qualifies the struct names.
func (m *reachMethod) decl(q string) string {
	var b strings.Builder
	for _, fl := range m.Flags {
		b.WriteString("\t// goverter:" + fl + "\n")
	}
	for _, t := range m.Targets {
		if t.Line != "" && t.Kind != "missing" {
			b.WriteString("\t// goverter:" + t.Line + "\n")
		}
	}
	fmt.Fprintf(&b, "\t%s(source %s%sS) %s%sT\n", m.Name, q, m.Pair, q, m.Pair)
	return b.String()
}

// literal is a Go literal of the idx-th argument (idx 1: the pointer on the paths is nil).
func (m *reachMethod) literal(q string, idx int) string {
	var b strings.Builder
	fmt.Fprintf(&b, "%s%sS{", q, m.Pair)
	for _, f := range m.Fields {
		fmt.Fprintf(&b, "%s: %s, ", f.Name, reachLeaf(m.Pair, []string{f.Name}, f.Type, idx))
	}
	nested := func(root string) string {
		var n strings.Builder
		fmt.Fprintf(&n, "%s%sN{", q, m.Pair)
		for _, f := range reachNested {
			fmt.Fprintf(&n, "%s: %s, ", f.Name, reachLeaf(m.Pair, []string{root, f.Name}, f.Type, idx))
		}
		return n.String() + "}"
	}
	b.WriteString("N: " + nested("N"))
	if idx != 1 {
		b.WriteString(", PN: &" + nested("PN"))
	}
	return b.String() + "}"
}

// expected is the printed value the target field must hold for the idx-th argument.
func (m *reachMethod) expected(t reachTarget, idx int) string {
	if t.Src == nil {
		return reachZero(t.Type)
	}
	if t.Src[0] == "PN" && idx == 1 {
		return "nil"
	}
	v := reachLeaf(m.Pair, t.Src, strings.TrimPrefix(t.Type, "*"), idx)
	if strings.HasPrefix(t.Type, "*") {
		return "&" + v
	}
	return v
}

func reachCaseGen(r *rng.R, id int, reach string) *reachCase {
	c := &reachCase{ID: id, Reach: reach, Dir: fmt.Sprintf("k%d", id), Tree: scratch.Tree{}, Expect: map[string]string{}, Lines: map[string]string{}}
	slots := 1
	if reach == "embedded-two-level" || reach == "embedded-two-interfaces" {
		slots = 2
	}
	n := slots + r.Intn(2)
	firstOfSlot := map[int]bool{}
	for k := 0; k < n; k++ {
		emb := reach != "direct" && (k < slots || r.Chance(60))
		slot := 0
		if emb {
			slot = k % slots
		}
		// the first method of every embedded interface (and every method of the control) has only settings whose loss would be silent
		silent := reach == "direct" && k == 0 || emb && !firstOfSlot[slot] || r.Chance(40)
		if emb {
			firstOfSlot[slot] = true
		}
		m := reachMethodGen(r, k, silent)
		m.Embedded, m.Slot = emb, slot
		m.List = r.Chance(40)
		c.Methods = append(c.Methods, m)
	}
	q, typePkg := "", "conv"
	if reach == "embedded-other-package" {
		q, typePkg = "model.", "model"
	}
	c.TypePkg = typePkg
	var types strings.Builder
	types.WriteString("package " + typePkg + "\n\n")
	for _, m := range c.Methods {
		types.WriteString(m.types())
	}
	c.Tree[c.Dir+"/"+typePkg+"/types.go"] = types.String()
	module := "example.org/c05reach"
	// the embedded interfaces
	body := func(slot int) string {
		var b strings.Builder
		for _, m := range c.Methods {
			if m.Embedded && m.Slot == slot {
				b.WriteString(m.decl(q))
			}
		}
		return b.String()
	}
	var direct strings.Builder
	for _, m := range c.Methods {
		if !m.Embedded {
			direct.WriteString(m.decl(q))
		}
		if m.List {
			fmt.Fprintf(&direct, "\tList%[1]s(source []%[2]s%[1]sS) []%[2]s%[1]sT\n", m.Pair, q)
		}
	}
	head := "// goverter:converter\ntype Conv interface {\n"
	shared := "// Shared is embedded by the converter.\ntype Shared interface {\n" + body(0) + "}\n\n"
	file := func(pkg, imports, decls string) string { return "package " + pkg + "\n\n" + imports + decls }
	switch reach {
	case "direct":
		c.Tree[c.Dir+"/conv/conv.go"] = file("conv", "", head+direct.String()+"}\n")
	case "embedded-same-file-after":
		c.Tree[c.Dir+"/conv/conv.go"] = file("conv", "", head+"\tShared\n"+direct.String()+"}\n\n"+shared)
	case "embedded-same-file-before":
		c.Tree[c.Dir+"/conv/conv.go"] = file("conv", "", shared+head+direct.String()+"\tShared\n}\n")
	case "embedded-other-file":
		c.Tree[c.Dir+"/conv/conv.go"] = file("conv", "", head+"\tShared\n"+direct.String()+"}\n")
		c.Tree[c.Dir+"/conv/shared.go"] = file("conv", "", shared)
	case "embedded-other-package":
		imp := fmt.Sprintf("import (\n\t%q\n\t%q\n)\n\nvar _ model.%sS\n\n", module+"/"+c.Dir+"/model", module+"/"+c.Dir+"/shared", c.Methods[0].Pair)
		c.Tree[c.Dir+"/conv/conv.go"] = file("conv", imp, head+"\tshared.Shared\n"+direct.String()+"}\n")
		c.Tree[c.Dir+"/shared/shared.go"] = file("shared", fmt.Sprintf("import %q\n\n", module+"/"+c.Dir+"/model"), shared)
	case "embedded-literal":
		lit := "\tinterface {\n" + strings.ReplaceAll(body(0), "\t", "\t\t") + "\t}\n"
		c.Tree[c.Dir+"/conv/conv.go"] = file("conv", "", head+lit+direct.String()+"}\n")
	case "embedded-alias-other-file":
		c.Tree[c.Dir+"/conv/conv.go"] = file("conv", "", head+"\tShared\n"+direct.String()+"}\n")
		c.Tree[c.Dir+"/conv/shared.go"] = file("conv", "", "type Shared = interface {\n"+body(0)+"}\n")
	case "embedded-two-level":
		mid := "type Mid interface {\n\tShared\n" + body(1) + "}\n\n"
		c.Tree[c.Dir+"/conv/conv.go"] = file("conv", "", head+"\tMid\n"+direct.String()+"}\n\n"+mid)
		c.Tree[c.Dir+"/conv/shared.go"] = file("conv", "", shared)
	case "embedded-two-interfaces":
		near := "type Near interface {\n" + body(1) + "}\n\n"
		c.Tree[c.Dir+"/conv/conv.go"] = file("conv", "", head+"\tNear\n\tShared\n"+direct.String()+"}\n\n"+near)
		c.Tree[c.Dir+"/conv/shared.go"] = file("conv", "", shared)
	}
	for _, m := range c.Methods {
		for idx := 0; idx < 2; idx++ {
			for _, t := range m.Targets {
				key := fmt.Sprintf("%s|%s|%d|%s", c.Dir, m.Name, idx, t.Name)
				c.Expect[key], c.Lines[key] = m.expected(t, idx), t.Line
				if m.List {
					key = fmt.Sprintf("%s|List%s|%d|%s", c.Dir, m.Pair, idx, t.Name)
					c.Expect[key], c.Lines[key] = m.expected(t, idx), t.Line
				}
			}
		}
	}
	return c
}

// checkerCalls is the part of the checker program that executes the generated converter of the case.
func (c *reachCase) checkerCalls(q string, g string) string {
	var b strings.Builder
	fmt.Fprintf(&b, "\t{\n\t\tvar c %s.Conv = &%s.ConvImpl{}\n", "c"+c.Dir, g)
	for _, m := range c.Methods {
		for idx := 0; idx < 2; idx++ {
			fmt.Fprintf(&b, "\t\t{\n\t\t\tout := c.%s(%s)\n", m.Name, m.literal(q, idx))
			for _, t := range m.Targets {
				fmt.Fprintf(&b, "\t\t\temit(%q, %q, %d, %q, out.%s)\n", c.Dir, m.Name, idx, t.Name, t.Name)
			}
			b.WriteString("\t\t}\n")
		}
		if m.List {
			fmt.Fprintf(&b, "\t\t{\n\t\t\touts := c.List%s([]%s%sS{%s, %s})\n\t\t\tfor i, out := range outs {\n", m.Pair, q, m.Pair, m.literal(q, 0), m.literal(q, 1))
			for _, t := range m.Targets {
				fmt.Fprintf(&b, "\t\t\t\temit(%q, %q, i, %q, out.%s)\n", c.Dir, "List"+m.Pair, t.Name, t.Name)
			}
			b.WriteString("\t\t\t}\n\t\t}\n")
		}
	}
	b.WriteString("\t}\n")
	return b.String()
}

func c05Reach(e *env) error {
	bin := goverterBin(e)
	root := filepath.Join(e.scratch, "c05reach")
	_ = os.RemoveAll(root)
	module := "example.org/c05reach"
	r := rng.New(e.seed*0x9E3779B97F4A7C15 ^ 0xC05E3BED)
	rounds := 2
	if e.thorough {
		rounds = 6 * e.scale
	}
	var cases []*reachCase
	tree := scratch.Tree{"go.mod": "module " + module + "\n\ngo 1.18\n"}
	for i := 0; i < rounds; i++ {
		// (two more controls per round: on a tree that refuses embedded interfaces they are what validates the oracle)
		for _, v := range append([]string{"direct", "direct"}, reachVariants...) {
			c := reachCaseGen(r, len(cases), v)
			for p, s := range c.Tree {
				tree[p] = s
			}
			cases = append(cases, c)
		}
	}
	if err := scratch.Write(root, tree); err != nil {
		return err
	}
	var wg sync.WaitGroup
	sem := make(chan struct{}, 6)
	for _, c := range cases {
		wg.Add(1)
		go func(c *reachCase) {
			defer wg.Done()
			sem <- struct{}{}
			defer func() { <-sem }()
			c.res = scratch.Run(bin, root, []string{"gen", "./" + c.Dir + "/conv"}, nil, 120*time.Second)
			if b, err := os.ReadFile(filepath.Join(root, c.Dir, "conv", "generated", "generated.go")); err == nil {
				c.gen = string(b)
			}
		}(c)
	}
	wg.Wait()
	describe := func(c *reachCase) map[string]any {
		return map[string]any{"reach": c.Reach, "files": c.Tree, "command": "goverter gen ./" + c.Dir + "/conv", "exit": c.res.Exit,
			"stderr": truncate(scratch.Relativise(root, c.res.Stderr), 800), "generated": truncate(c.gen, 4000)}
	}
	var run []*reachCase
	for _, c := range cases {
		e.rep.Eval(1)
		e.rep.Nontrivial("reach:" + c.Tree[c.Dir+"/conv/conv.go"] + c.Tree[c.Dir+"/"+c.TypePkg+"/types.go"])
		switch {
		case c.res.Exit == 0 && c.gen != "":
			e.rep.Count("reach." + c.Reach + ".generated")
			run = append(run, c)
		case c.res.Exit == 1 && strings.TrimSpace(c.res.Stderr) != "" && !strings.Contains(c.res.Stderr, "goroutine ") && c.Reach != "direct":
			// refused with a diagnostic: no setting was dropped silently
			e.rep.Count("reach." + c.Reach + ".refused")
		default:
			e.rep.Count("reach." + c.Reach + ".other")
			d := describe(c)
			d["broken"] = "C05: documented field settings (map to a field / a path, ignore, ignoreMissing) on a method of the converter: the run neither generates the converter nor (for methods of an embedded interface) refuses it with a diagnostic"
			e.rep.Violation("", d, false)
		}
	}
	if len(run) == 0 {
		return fmt.Errorf("c05 reach: not a single project was generated (the control with the methods in the converter itself included)")
	}
	// one program executes every generated converter
	var imports, calls strings.Builder
	for _, c := range run {
		fmt.Fprintf(&imports, "\tc%[1]s %[2]q\n\tg%[1]s %[3]q\n", c.Dir, module+"/"+c.Dir+"/conv", module+"/"+c.Dir+"/conv/generated")
		q := "c" + c.Dir + "."
		if c.TypePkg != "conv" {
			fmt.Fprintf(&imports, "\tt%[1]s %[2]q\n", c.Dir, module+"/"+c.Dir+"/"+c.TypePkg)
			q = "t" + c.Dir + "."
		}
		calls.WriteString(c.checkerCalls(q, "g"+c.Dir))
	}
	main := "package main\n\nimport (\n\t\"fmt\"\n\t\"reflect\"\n\t\"strconv\"\n\n" + imports.String() + ")\n\n" +
		"func show(v reflect.Value) string {\n\tswitch v.Kind() {\n\tcase reflect.Ptr:\n\t\tif v.IsNil() {\n\t\t\treturn \"nil\"\n\t\t}\n\t\treturn \"&\" + show(v.Elem())\n" +
		"\tcase reflect.String:\n\t\treturn strconv.Quote(v.String())\n\t}\n\treturn fmt.Sprint(v.Interface())\n}\n\n" +
		"func emit(c, m string, i int, f string, v any) {\n\tfmt.Printf(\"%s|%s|%d|%s|%s\\n\", c, m, i, f, show(reflect.ValueOf(v)))\n}\n\n" +
		"func main() {\n" + calls.String() + "}\n"
	if err := scratch.Write(root, scratch.Tree{"check/main.go": main}); err != nil {
		return err
	}
	exe := filepath.Join(root, "check.bin")
	if out, err := scratch.GoBuild(root, "-o", exe, "./check"); err != nil {
		files := map[string]string{}
		for _, c := range run {
			files[c.Dir+" ("+c.Reach+")"] = truncate(c.gen, 1500)
		}
		e.rep.Violation("generated-code-does-not-compile", map[string]any{"build_output": truncate(scratch.Relativise(root, out), 3000), "generated": files,
			"broken": "C05: code emitted for a successful generation does not compile (converters whose methods come from embedded interfaces)"}, false)
		return nil
	}
	cmd := exec.Command(exe)
	cmd.Dir = root
	outB, err := cmd.Output()
	if err != nil {
		return fmt.Errorf("c05 reach: the checker program failed: %v", err)
	}
	got := map[string]string{}
	for _, l := range strings.Split(string(outB), "\n") {
		if i := strings.LastIndex(l, "|"); i > 0 {
			// the value is printed last; strings are quoted, so they hold no '|' that is not theirs – cut at the fourth bar
			parts := strings.SplitN(l, "|", 5)
			if len(parts) == 5 {
				got[strings.Join(parts[:4], "|")] = parts[4]
			}
		}
	}
	for _, c := range run {
		var keys []string
		for k := range c.Expect {
			keys = append(keys, k)
		}
		sort.Strings(keys)
		var diffs []map[string]string
		for _, k := range keys {
			e.rep.Eval(1)
			if got[k] != c.Expect[k] {
				p := strings.Split(k, "|")
				setting := c.Lines[k]
				if setting == "" {
					setting = "(none: the same-named source field)"
				} else {
					setting = "goverter:" + setting
				}
				diffs = append(diffs, map[string]string{"method": p[1], "argument": p[2], "target_field": p[3], "setting": setting, "expected": c.Expect[k], "generated_code_returned": got[k]})
			}
		}
		if len(diffs) == 0 {
			e.rep.Count("reach." + c.Reach + ".honoured")
			if c.ID%(len(reachVariants)+2) == 0 {
				e.rep.Sample(map[string]any{"reach": c.Reach, "converter": c.Tree[c.Dir+"/conv/conv.go"], "checked_fields": len(keys)})
			}
			continue
		}
		e.rep.Count("reach." + c.Reach + ".settings-not-honoured")
		d := describe(c)
		d["differences"] = diffs
		d["broken"] = "C05: generation succeeded, but field settings written on a method of the converter (reach: " + c.Reach + ") are not honoured by the generated code: every setting must take effect or generation must fail"
		e.rep.Violation("", d, false)
	}
	return nil
}
