package main

import (
	"fmt"
	"go/parser"
	"go/token"
	"os"
	"path/filepath"
	"sort"
	"strings"
	"sync"
	"time"

	"github.com/dave/jennifer/jen"

	"gvh/internal/drv"
	"gvh/internal/rng"
	"gvh/internal/scratch"
	"gvh/internal/sx"
)

func init() { campaigns["C15"] = runC15 }

func goverterBin(e *env) string {
	if p := os.Getenv("GOVERTER_BIN"); p != "" {
		return p
	}
	return filepath.Join(e.verif, "build", "goverter")
}

type layConv struct {
	Pkg   string   `json:"pkg"`  // package dir relative to the module root
	File  string   `json:"file"` // declaring file (relative)
	Vars  bool     `json:"variables"`
	Name  string   `json:"name"` // interface name / variable name
	Lines []string `json:"lines"`
}

type layCase struct {
	ID       int               `json:"id"`
	Module   string            `json:"module"`
	Tree     scratch.Tree      `json:"tree"`
	Convs    []*layConv        `json:"converters"`
	Args     []string          `json:"args"`
	RunDir   string            `json:"run_dir"` // relative to root, "" = root, ".." = parent of root
	UseCwd   bool              `json:"use_cwd_flag"`
	Global   []string          `json:"global_lines"`
	CwdRel   bool              `json:"cwd_flag_relative"`
	Existing map[string]string `json:"existing_packages"` // dir -> package name
	root     string
}

func genLayCase(r *rng.R, id int, base string) *layCase {
	lc := &layCase{ID: id, Module: fmt.Sprintf("example.org/m%d", id), Tree: scratch.Tree{}, Existing: map[string]string{}}
	lc.root = filepath.Join(base, fmt.Sprintf("m%d", id))
	lc.Tree["go.mod"] = "module " + lc.Module + "\n\ngo 1.18\n"
	pkgs := []string{"a"}
	if r.Chance(50) {
		pkgs = append(pkgs, "b")
	}
	if r.Chance(20) {
		pkgs = append(pkgs, "a/sub")
	}
	for _, p := range pkgs {
		lc.Tree[p+"/types.go"] = "package " + filepath.Base(p) + "\n\ntype In struct{ V int }\n\ntype Out struct{ V int }\n"
		lc.Existing[p] = filepath.Base(p)
	}
	n := 1 + r.Intn(3)
	// invocation
	inv := r.Intn(5)
	// every 10th case pins `output:file @cwd/…` together with a relative -cwd given from the parent directory (and a
	// converter in a sub-directory)
	pinCwd := id%10 == 7
	// every 10th case pins two converters writing ONE file whose package settings agree on the path while only one of them
	// names the package (the target package does not exist yet): the clauses differ, so the run must be refused
	pinShared := id%10 == 3
	if pinShared {
		n = 2
	}
	// every 10th case pins an output directory that already holds a hand-written package with its own name which uses
	// the generated code (so it does not type-check during the run) and is not selected by the patterns
	pinBrokenExisting := id%10 == 5
	if pinBrokenExisting {
		inv = 1
	}
	// every 10th case pins two spellings of ONE output file: an absolute path that is not in clean form and a relative one
	pinAbsUnclean := id%10 == 1
	if pinAbsUnclean {
		n = 2
	}
	// a GLOBAL relative output:file (-g): resolved per converter against the directory of ITS declaring file
	// every 10th case pins a global output:file that one converter overrides with its own (no output:package anywhere):
	// the package follows the file that is finally in effect
	pinOverride := id%10 == 9
	if (r.Chance(20) || pinOverride) && !pinCwd && !pinShared && !pinAbsUnclean {
		lc.Global = []string{"output:file ./gx/out.go"}
		n = 2 + r.Intn(2)
	}
	for i := 0; i < n; i++ {
		cv := &layConv{Pkg: rng.Pick(r, pkgs), Vars: r.Chance(25), Name: fmt.Sprintf("Conv%d", i)}
		if len(lc.Global) > 0 {
			cv.Pkg = pkgs[i%len(pkgs)] // spread over the input packages
			cv.Vars = false
		}
		cv.File = fmt.Sprintf("%s/conv%d.go", cv.Pkg, i)
		j := r.Intn(2)
		var targetDir string // relative to root, "" = unknown/default
		kk := r.Intn(8)
		if pinOverride && i == 1 {
			kk = []int{3, 4, 7}[(id/10)%3]
		} else if len(lc.Global) > 0 && (i == 0 || r.Bool()) {
			// (the others carry their own output:file, which overrides the global one — also for the inferred package)
			kk = 100
		}
		if pinCwd && i == 0 {
			kk = 6
		}
		if pinBrokenExisting && i == 0 {
			kk = 3
			cv.Vars = false
		}
		if pinShared {
			kk, j = 4, 0
			cv.Pkg, cv.Vars = pkgs[0], false
			cv.File = fmt.Sprintf("%s/conv%d.go", cv.Pkg, i)
		}
		if pinAbsUnclean {
			kk = 200 + i
			cv.Pkg, cv.Vars = pkgs[0], false
			cv.File = fmt.Sprintf("%s/conv%d.go", cv.Pkg, i)
		}
		switch k := kk; {
		case k == 200:
			cv.Lines = append(cv.Lines, fmt.Sprintf("output:file %s/%s/../absdir/out0.go", lc.root, cv.Pkg))
			targetDir = "absdir"
		case k == 201:
			cv.Lines = append(cv.Lines, "output:file ../absdir/out0.go")
			targetDir = "absdir"
		case k == 100:
			targetDir = cv.Pkg + "/gx"
		case k < 3: // default
			if cv.Vars {
				targetDir = cv.Pkg
			} else {
				targetDir = cv.Pkg + "/generated"
			}
		case k == 3:
			cv.Lines = append(cv.Lines, fmt.Sprintf("output:file ./gen/out%d.go", j))
			targetDir = cv.Pkg + "/gen"
		case k == 4:
			cv.Lines = append(cv.Lines, fmt.Sprintf("output:file ../shared/out%d.go", j))
			targetDir = filepath.ToSlash(filepath.Join(cv.Pkg, "../shared"))
		case k == 5:
			cv.Lines = append(cv.Lines, fmt.Sprintf("output:file %s/absdir/out%d.go", lc.root, j))
			targetDir = "absdir"
		case k == 6:
			cv.Lines = append(cv.Lines, fmt.Sprintf("output:file @cwd/cwdir/out%d.go", j))
			targetDir = "cwdir"
		default:
			cv.Lines = append(cv.Lines, fmt.Sprintf("output:file out%d.go", j))
			targetDir = cv.Pkg
		}
		pk := r.Intn(6)
		if len(lc.Global) > 0 && (kk == 100 || r.Bool() || pinOverride) {
			pk = 5
		}
		if pinShared {
			pk = []int{3, 1}[(i+id/10)%2]
		}
		if pinAbsUnclean {
			pk = 5 + 0*i
		}
		switch pk {
		case 3:
			cv.Lines = append(cv.Lines, "output:package "+lc.Module+"/x/y")
		case 0:
			cv.Lines = append(cv.Lines, "output:package "+lc.Module+"/x/y-z")
		case 1:
			cv.Lines = append(cv.Lines, "output:package "+lc.Module+"/x/y:nm")
		case 2:
			cv.Lines = append(cv.Lines, "output:package :nm")
		}
		if !pinShared && (r.Chance(30) || (len(lc.Global) > 0 && r.Chance(70)) || (pinBrokenExisting && i == 0)) && targetDir != "" && lc.Existing[targetDir] == "" && !strings.HasPrefix(targetDir, "..") {
			name := rng.Pick(r, []string{"realname", "other", filepath.Base(targetDir)})
			if pinBrokenExisting && i == 0 {
				name = "realname"
			}
			lc.Tree[targetDir+"/existing.go"] = "package " + name + "\n"
			lc.Existing[targetDir] = name
			// hand-written code next to the output that USES generated code does not type-check while goverter runs (the
			// generated file is excluded by its build constraint): the package's name must be taken all the same.
			// Only when the patterns do not select that directory (a selected package that does not compile ends the run).
			if inv == 1 && !pinCwd && (r.Chance(60) || pinBrokenExisting) {
				lc.Tree[targetDir+"/existing.go"] += "\nvar Default = &NotYetGenerated{}\n"
			}
		}
		lc.Convs = append(lc.Convs, cv)
	}
	// render converters
	byFile := map[string][]*layConv{}
	for _, cv := range lc.Convs {
		byFile[cv.File] = append(byFile[cv.File], cv)
	}
	for f, cvs := range byFile {
		var b strings.Builder
		b.WriteString("package " + filepath.Base(filepath.Dir(f)) + "\n\n")
		for _, cv := range cvs {
			if cv.Vars {
				b.WriteString("// goverter:variables\n")
				for _, l := range cv.Lines {
					b.WriteString("// goverter:" + l + "\n")
				}
				b.WriteString("var (\n\t" + cv.Name + " func(In) Out\n)\n\n")
			} else {
				b.WriteString("// goverter:converter\n")
				for _, l := range cv.Lines {
					b.WriteString("// goverter:" + l + "\n")
				}
				b.WriteString("type " + cv.Name + " interface {\n\tConvert(source In) Out\n}\n\n")
			}
		}
		lc.Tree[f] = b.String()
	}
	if pinCwd {
		inv = 3
	}
	switch inv {
	case 0:
		lc.Args = []string{"gen", "./..."}
	case 1:
		lc.Args = []string{"gen"}
		for _, p := range pkgs {
			lc.Args = append(lc.Args, "./"+p)
		}
	case 2:
		lc.RunDir = ".."
		lc.UseCwd = true
		lc.Args = []string{"gen", "-cwd", lc.root, "./..."}
	case 3:
		// a RELATIVE -cwd, given from the parent directory
		lc.RunDir = ".."
		lc.UseCwd = true
		lc.CwdRel = true
		lc.Args = []string{"gen", "-cwd", filepath.Base(lc.root), "./..."}
	default:
		lc.Args = []string{"gen", lc.Module + "/..."}
	}
	if len(lc.Global) > 0 {
		var a []string
		a = append(a, lc.Args[0])
		for _, g := range lc.Global {
			a = append(a, "-g", g)
		}
		lc.Args = append(a, lc.Args[1:]...)
	}
	return lc
}

// selected reports the converters the patterns select (all of them for every generated invocation).
func (lc *layCase) request() *sx.Node {
	procwd := lc.root
	cwd := ""
	if lc.UseCwd {
		cwd = lc.root
		procwd = filepath.Dir(lc.root)
		if lc.CwdRel {
			cwd = filepath.Base(lc.root)
		}
	}
	req := sx.H("place", sx.I(lc.ID), sx.H("cwd", sx.S(cwd)), sx.H("procwd", sx.S(procwd)), sx.Strs("cli", lc.Global))
	ld := sx.H("loaded")
	var dirs []string
	for d := range lc.Existing {
		dirs = append(dirs, d)
	}
	sort.Strings(dirs)
	for _, d := range dirs {
		ld.Add(sx.H("p", sx.S(lc.Module+"/"+d), sx.S(lc.Existing[d])))
	}
	req.Add(ld)
	for _, cv := range lc.Convs {
		iface := cv.Name
		if cv.Vars {
			iface = ""
		}
		req.Add(sx.H("conv", sx.H("vars", sx.B(cv.Vars)), sx.H("iface", sx.S(iface)), sx.H("file", sx.S(filepath.Join(lc.root, cv.File))),
			sx.H("pkg", sx.S(lc.Module+"/"+cv.Pkg)), sx.H("pkgname", sx.S(filepath.Base(cv.Pkg))), sx.H("rxbad"),
			sx.Strs("lines", append([]string{"converter"}, cv.Lines...))))
	}
	return req
}

func packageClauseOf(path string) string {
	f, err := parser.ParseFile(token.NewFileSet(), path, nil, parser.PackageClauseOnly)
	if err != nil {
		return "<unparsable: " + err.Error() + ">"
	}
	return f.Name.Name
}

func runC15(e *env) error {
	e.rep.Rule = "cases = scratch modules with 1-3 converters (interfaces and variables blocks) over 1-3 packages, output:file in {default, relative, parent, absolute, @cwd, sibling file} x output:package in {absent, path, path:name, :name} x existing/non-existing target package x a global (-g) relative output:file resolved per input package x shared output files x invocation {./..., explicit dirs, -cwd (absolute and relative) from another directory, module pattern}; the goverter binary built from /repo is run, the tree is snapshotted before/after, and created paths, package clauses and modes are compared with Gv.Layout (place / outputPath / resolveOutputPackage / guessAlias). Direct calls compare jennifer's guessAlias (via jen.NewFilePath) and path/filepath functions with the model. non-trivial = at least one output setting or several converters; distinct = canonical case"
	nCases := 100
	if e.thorough {
		nCases = 700 * e.scale
	}
	bin := goverterBin(e)
	base := filepath.Join(e.scratch, "c15")
	if err := os.MkdirAll(base, 0o755); err != nil {
		return err
	}
	r := e.r.Fork(15)
	var cases []*layCase
	e.rep.Rule += w10C15Rule
	rNames := rng.New(e.seed ^ 0xC15F11E) // its own stream: the cases of genLayCase stay what they were
	for i := 0; i < nCases; i++ {
		cases = append(cases, genLayCase(r, i, base))
		w10C15Names(rNames, cases[i])
	}
	var reqs []*sx.Node
	for _, lc := range cases {
		reqs = append(reqs, lc.request())
	}
	answers, err := drv.Run(reqs)
	if err != nil {
		return err
	}
	type obs struct {
		res                       scratch.Result
		created, changed, removed []string
		after                     map[string]scratch.Entry
		err                       error
	}
	out := make([]obs, len(cases))
	var wg sync.WaitGroup
	sem := make(chan struct{}, 12)
	for i, lc := range cases {
		wg.Add(1)
		go func(i int, lc *layCase) {
			defer wg.Done()
			sem <- struct{}{}
			defer func() { <-sem }()
			if err := scratch.Write(lc.root, lc.Tree); err != nil {
				out[i].err = err
				return
			}
			before, _ := scratch.Snapshot(lc.root)
			dir := lc.root
			if lc.RunDir == ".." {
				dir = filepath.Dir(lc.root)
			}
			out[i].res = scratch.Run(bin, dir, lc.Args, nil, 120*time.Second)
			after, _ := scratch.Snapshot(lc.root)
			out[i].after = after
			out[i].created, out[i].changed, out[i].removed = scratch.Diff(before, after)
		}(i, lc)
	}
	wg.Wait()
	e.rep.Eval(len(cases))
	for i, lc := range cases {
		o := out[i]
		if o.err != nil {
			return o.err
		}
		model := answers[i]
		key := reqs[i].String()
		settings := 0
		for _, cv := range lc.Convs {
			settings += len(cv.Lines)
		}
		if settings > 0 || len(lc.Convs) > 1 {
			e.rep.Nontrivial(key)
		}
		e.rep.Count("cli." + model.Head())
		fail := func(why string) {
			e.rep.Violation("", map[string]any{"case": lc, "why": why, "model": model.String(), "exit": o.res.Exit,
				"stderr": scratch.Relativise(lc.root, truncate(o.res.Stderr, 1500)), "created": o.created, "changed": o.changed, "removed": o.removed,
				"broken": "correspondence C15: Gv.Layout.place vs files written by the goverter binary"}, false)
		}
		if o.res.TimedOut {
			fail("timeout")
			continue
		}
		if model.Head() == "err" {
			if o.res.Exit != 1 {
				fail(fmt.Sprintf("model predicts a diagnostic, exit status is %d", o.res.Exit))
			} else if len(o.created)+len(o.changed)+len(o.removed) > 0 {
				fail("failing run changed the tree")
			}
			continue
		}
		if o.res.Exit != 0 {
			fail("model predicts success")
			continue
		}
		want := map[string]string{}
		wantDirs := map[string]bool{}
		for _, f := range model.Args() {
			rel, err := filepath.Rel(lc.root, f.L[1].S)
			if err != nil {
				rel = f.L[1].S
			}
			rel = filepath.ToSlash(rel)
			want[rel] = f.L[2].S
			for d := filepath.ToSlash(filepath.Dir(rel)); d != "." && d != "/"; d = filepath.ToSlash(filepath.Dir(d)) {
				wantDirs[d] = true
			}
		}
		problems := []string{}
		seen := map[string]bool{}
		for _, p := range o.created {
			ent := o.after[p]
			if ent.Dir {
				if !wantDirs[p] {
					problems = append(problems, "unexpected directory "+p)
				}
				if ent.Mode != 0o755 {
					problems = append(problems, fmt.Sprintf("directory %s has mode %o", p, ent.Mode))
				}
				continue
			}
			clause, ok := want[p]
			if !ok {
				problems = append(problems, "unexpected file "+p)
				continue
			}
			seen[p] = true
			if ent.Mode != 0o644 {
				problems = append(problems, fmt.Sprintf("file %s has mode %o", p, ent.Mode))
			}
			if got := packageClauseOf(filepath.Join(lc.root, p)); got != clause {
				problems = append(problems, fmt.Sprintf("file %s has package clause %q, expected %q", p, got, clause))
			}
		}
		for p := range want {
			if !seen[p] {
				problems = append(problems, "expected file not created: "+p)
			}
		}
		// every selected converter is in one of the written files (converters that select one file are MERGED, none is dropped)
		var written strings.Builder
		for _, p := range o.created {
			if !o.after[p].Dir {
				c, _ := os.ReadFile(filepath.Join(lc.root, p))
				written.Write(c)
			}
		}
		for _, cv := range lc.Convs {
			decl := "type " + cv.Name + "Impl struct"
			if cv.Vars {
				decl = cv.Name + " = func("
			}
			if !strings.Contains(written.String(), decl) {
				problems = append(problems, "converter "+cv.Name+" was selected, the run succeeded, but no written file contains its code")
			}
		}
		if len(o.changed) > 0 || len(o.removed) > 0 {
			problems = append(problems, fmt.Sprintf("existing entries changed %v removed %v", o.changed, o.removed))
		}
		if len(problems) > 0 {
			fail(strings.Join(problems, "; "))
		}
		if i%9 == 0 {
			e.rep.Sample(map[string]any{"converters": lc.Convs, "args": lc.Args, "created": o.created})
		}
	}

	// direct: guessAlias and path functions
	return c15Direct(e)
}

func c15Direct(e *env) error {
	r := e.r.Fork(151)
	n := 3000
	if e.thorough {
		n = 60000
	}
	segs := []string{"a", "B", "x-y", "v2", "9lives", "123", "gen.go", "..", ".", "", "Über", "a_b", "go-pkg.v1", "UPPER", "with space"}
	var reqs, impl []*sx.Node
	var descr []string
	add := func(req *sx.Node, im *sx.Node, d string) {
		reqs = append(reqs, req)
		impl = append(impl, im)
		descr = append(descr, d)
	}
	mk := func() string {
		k := r.Intn(5)
		var parts []string
		for i := 0; i < k; i++ {
			parts = append(parts, rng.Pick(r, segs))
		}
		p := strings.Join(parts, "/")
		if r.Chance(30) {
			p = "/" + p
		}
		if r.Chance(15) {
			p += "/"
		}
		return p
	}
	for i := 0; i < n; i++ {
		a, b := mk(), mk()
		id := func() *sx.Node { return sx.I(len(reqs)) }
		add(sx.H("path", id(), sx.A("clean"), sx.S(a)), sx.S(filepath.Clean(a)), "Clean "+a)
		add(sx.H("path", id(), sx.A("join"), sx.S(a), sx.S(b)), sx.S(filepath.Join(a, b)), "Join "+a+" "+b)
		add(sx.H("path", id(), sx.A("dir"), sx.S(a)), sx.S(filepath.Dir(a)), "Dir "+a)
		add(sx.H("path", id(), sx.A("base"), sx.S(a)), sx.S(filepath.Base(a)), "Base "+a)
		add(sx.H("path", id(), sx.A("ext"), sx.S(a)), sx.S(filepath.Ext(a)), "Ext "+a)
		if rel, err := filepath.Rel(a, b); err == nil {
			add(sx.H("path", id(), sx.A("rel"), sx.S(a), sx.S(b)), sx.S(rel), "Rel "+a+" "+b)
		} else {
			add(sx.H("path", id(), sx.A("rel"), sx.S(a), sx.S(b)), sx.H("err"), "Rel "+a+" "+b)
		}
		if a != "" && !strings.Contains(a, "Über") {
			var sb strings.Builder
			_ = jen.NewFilePath(a).Render(&sb)
			clause := ""
			for _, l := range strings.Split(sb.String(), "\n") {
				if strings.HasPrefix(l, "package ") {
					clause = strings.TrimPrefix(l, "package ")
				}
			}
			add(sx.H("misc", id(), sx.A("guessalias"), sx.S(a)), sx.S(clause), "guessAlias "+a)
		}
	}
	answers, err := drv.Run(reqs)
	if err != nil {
		return err
	}
	e.rep.Eval(len(reqs))
	for i, a := range answers {
		e.rep.Nontrivial(descr[i])
		if a.String() != impl[i].String() {
			e.rep.Violation("", map[string]any{"call": descr[i], "implementation": impl[i].String(), "model": a.String(),
				"broken": "correspondence C15 (direct): Gv.Path / guessAlias vs path/filepath / jennifer"}, false)
		}
	}
	return nil
}
