package main

import (
	"fmt"
	"go/token"
	"go/types"
	"path/filepath"
	"regexp"
	"strings"

	"gvh/internal/drv"
	"gvh/internal/gvx"
	"gvh/internal/scratch"
	"gvh/internal/sx"
)

// The extend-selection campaign (C06): which package-level functions a `goverter:extend` setting selects.
// A scratch package declares exported and unexported functions with usable and unusable signatures, a non-function and
// a generic function; converters name them literally or by regular expressions, from an interface converter (output
// package not yet known when the line is read: only exported objects are accessible) and from a variables block (output
// goes into the declaring package: unexported objects are accessible too).  The list of extend functions the real
// configuration stage ends up with is compared with Gv.Signature.selectExtend fed with the package scope as the
// harness' own load sees it.

const extSelDecls = `type A struct{ V int }
type B struct{ V int }
type C struct{ V int }

func ExtAToB(s A) B                 { return B{} }
func extAToC(s A) C                 { return C{} }
func ExtCToA(s C) (A, error)        { return A{}, nil }
func extBToC(s B) C                 { return C{} }
func ExtTwoSources(s A, t B) C      { return C{} }
func extNoResult(s A)               {}
func ExtThreeResults(s A) (B, C, error) { return B{}, C{}, nil }
func ExtGeneric[T any](s T) B       { return B{} }
func OtherAToB(s A) B               { return B{} }
func ExtWithCtx(s B, ctxTag string) A { return A{} }

// goverter:context tag
func ExtOwnCtx(s C, tag string) B { return B{} }

// goverter:context tag
// goverter:context more
func extOwnCtx2(s C, tag string, more int) A { return A{} }

// goverter:context nope
func ExtOwnCtxWrongName(s C, tag string) B { return B{} }

var ExtVarNotFunc = 3
var extFuncVar = func(s A) B { return B{} }

type ExtTypeNotFunc struct{}

// a named FUNCTION TYPE is a type, not a function: it cannot be a custom function
type ExtHookType func(s A) B
type extHookType2 func(s A) C
`

var extSelPatterns = []string{"ExtAToB", "extAToC", "ExtTwoSources", "extNoResult", "ExtVarNotFunc", "ExtGeneric", "Nope", "Ext.*", "ext.*", "(e|E)xt.*",
	".*ToB", ".*To[A-Z]", "ExtOwnCtx", "ExtOwn.*", "(E|e)xtOwn.*", ".*Ctx2?", "ExtOwnCtxWrongName", "extOwnCtx2", "ExtHookType", "Ext(Hook|ATo).*", "extHookType2", "Ext|ExtAToB", "ExtAToB|Ext", "Nope.*", "Ext(Two|Three).*", "extFuncVar", ".*", "[eE]xt[A-C]To[A-C]", "ExtTypeNotFunc",
	`.*\QToB`, `Ext\QAToB`, `.*\QToB\E`, `(?i)extatob`, `(Ext)(A)(To)(B)`, `Ext.{4}`}

func runExtSel(e *env) error {
	e.rep.Rule += "; extend selection: converters naming extend functions literally or by " + fmt.Sprint(len(extSelPatterns)) + " regular expressions over a package with exported/unexported, usable/unusable, generic and non-function objects, from interface converters and from variables blocks: the extend list of the real configuration stage vs Gv.Signature.selectExtend over the package scope"
	root := filepath.Join(e.scratch, "extsel")
	var conv strings.Builder
	type ec struct {
		name, pattern string
		vars          bool
	}
	var cases []ec
	files := scratch.Tree{"go.mod": "module example.org/extsel\n\ngo 1.18\n", "p/decls.go": "package p\n\n" + extSelDecls}
	for i, pat := range extSelPatterns {
		n := fmt.Sprintf("Conv%d", i)
		fmt.Fprintf(&conv, "// goverter:converter\n// goverter:extend %s\ntype %s interface {\n\tConvert(source A) B\n}\n\n", pat, n)
		cases = append(cases, ec{n, pat, false})
		// one variables block per file (the converter key is the file name)
		vf := fmt.Sprintf("p/vars%d.go", i)
		files[vf] = fmt.Sprintf("package p\n\n// goverter:variables\n// goverter:extend %s\nvar (\n\tVarConv%d func(source A) B\n)\n", pat, i)
		cases = append(cases, ec{"vars@" + fmt.Sprintf("vars%d", i), pat, true})
	}
	files["p/conv.go"] = "package p\n\n" + conv.String()
	if err := scratch.Write(root, files); err != nil {
		return err
	}
	b := gvx.RunBatch(root, gvx.Options{Patterns: []string{"./p"}})
	if b.DocsErr != nil || b.LoadErr != nil {
		return fmt.Errorf("extsel: scratch package does not load: %v %v", b.DocsErr, b.LoadErr)
	}
	pkg := b.Pkgs["example.org/extsel/p"]
	if pkg == nil || pkg.Types == nil {
		return fmt.Errorf("extsel: package not loaded by the harness")
	}
	byKey := map[string]*gvx.ConvOutcome{}
	for _, oc := range b.Outcomes {
		k := oc.Raw.InterfaceName
		if k == "" {
			k = "vars@" + strings.TrimSuffix(filepath.Base(oc.Raw.FileName), ".go")
		}
		byKey[k] = oc
	}
	scope := pkg.Types.Scope()
	own := ownContexts(extSelDecls)
	var reqs, impl []*sx.Node
	var descr []map[string]any
	for _, c := range cases {
		oc := byKey[c.name]
		if oc == nil {
			return fmt.Errorf("extsel: converter %s not found", c.name)
		}
		var im *sx.Node
		switch {
		case oc.Stage == "config":
			msg := oc.Err
			switch {
			case strings.Contains(msg, "does not have methods with names that match"):
				im = sx.H("err", sx.A("noMatch"))
			case strings.Contains(msg, "does not exist in package"):
				im = sx.H("err", sx.A("notFound"))
			default:
				im = sx.H("err", sx.A(classifyParseErr(strings.TrimSpace(lastLine(msg)))))
			}
		case oc.Conv == nil:
			im = sx.H("err", sx.A("no-config:"+oc.Stage))
		default:
			im = sx.H("ok")
			for _, d := range oc.Conv.Extend {
				im.Add(sx.S(d.Name))
			}
		}
		rx := regexp.MustCompile(c.pattern)
		_, literal := rx.LiteralPrefix()
		var convType types.Type
		if !c.vars {
			convType = scope.Lookup(c.name).Type()
		}
		cands := sx.H("cands")
		for _, name := range scope.Names() {
			obj := scope.Lookup(name)
			loc := rx.FindStringIndex(name)
			full := len(loc) == 2 && loc[0] == 0 && loc[1] == len(name)
			accessible := token.IsExported(name) || c.vars
			on := sx.H("obj", sx.H("accessible", sx.B(accessible)))
			sig, isFunc := obj.Type().(*types.Signature)
			on.Add(sx.H("func", sx.B(isFunc)))
			pn, rn := sx.H("params"), sx.H("results")
			tp := false
			if isFunc {
				tp = sig.TypeParams().Len() > 0
				for i := 0; i < sig.Params().Len(); i++ {
					p := sig.Params().At(i)
					isConv := convType != nil && types.Identical(p.Type(), convType)
					pn.Add(sx.H("p", sx.S(p.Name()), sx.S(p.Type().String()), sx.B(isConv), sx.B(false)))
				}
				for i := 0; i < sig.Results().Len(); i++ {
					t := sig.Results().At(i).Type()
					rn.Add(sx.H("r", sx.S(t.String()), sx.B(t.String() == "error")))
				}
			}
			on.Add(sx.H("typeparams", sx.B(tp)), pn, rn, sx.Strs("localctx", own[name]))
			cands.Add(sx.H("c", sx.S(name), sx.B(full), on))
		}
		req := sx.H("extsel", sx.I(len(reqs)), sx.H("literal", sx.B(literal)), sx.H("lit", sx.S(c.pattern)),
			sx.H("opts", sx.H("params", sx.A("required")), sx.H("multi", sx.B(false)), sx.H("allowtp", sx.B(false)), sx.H("update", sx.S("")), sx.Strs("localctx", nil)),
			cands)
		reqs = append(reqs, req)
		impl = append(impl, im)
		descr = append(descr, map[string]any{"converter": c.name, "extend": c.pattern, "variables_block": c.vars})
		e.rep.Count("extsel." + im.Head())
		e.rep.Nontrivial(c.name + c.pattern)
	}
	answers, err := drv.Run(reqs)
	if err != nil {
		return err
	}
	e.rep.Eval(len(reqs))
	for i, a := range answers {
		if a.String() != impl[i].String() {
			d := descr[i]
			d["implementation"] = impl[i].String()
			d["model"] = a.String()
			d["declarations"] = extSelDecls
			d["broken"] = "correspondence " + e.prop + ": the extend functions selected by the real configuration stage (pkgload.GetMatching) vs Gv.Signature.selectExtend"
			e.rep.Violation("", d, false)
		}
	}
	return nil
}

// ownContexts: the `goverter:context ARG` lines of the doc comments of the package-level functions of a source text.
func ownContexts(src string) map[string][]string {
	out := map[string][]string{}
	var pending []string
	for _, line := range strings.Split(src, "\n") {
		t := strings.TrimSpace(line)
		switch {
		case strings.HasPrefix(t, "// goverter:context "):
			pending = append(pending, strings.TrimSpace(strings.TrimPrefix(t, "// goverter:context ")))
		case strings.HasPrefix(t, "func "):
			name := strings.TrimPrefix(t, "func ")
			if i := strings.IndexAny(name, "(["); i > 0 {
				out[name[:i]] = pending
			}
			pending = nil
		case strings.HasPrefix(t, "//"):
		default:
			pending = nil
		}
	}
	return out
}

// extCands describes the objects of a package scope for one extend name (what pkgload.GetMatching looks at).
func extCands(scope *types.Scope, pattern string, unexportedAccessible bool, convType types.Type, own map[string][]string) (*sx.Node, bool) {
	rx := regexp.MustCompile(pattern)
	_, literal := rx.LiteralPrefix()
	cands := sx.H("cands")
	for _, name := range scope.Names() {
		obj := scope.Lookup(name)
		loc := rx.FindStringIndex(name)
		full := len(loc) == 2 && loc[0] == 0 && loc[1] == len(name)
		accessible := token.IsExported(name) || unexportedAccessible
		on := sx.H("obj", sx.H("accessible", sx.B(accessible)))
		sig, isFunc := obj.Type().(*types.Signature)
		on.Add(sx.H("func", sx.B(isFunc)))
		pn, rn := sx.H("params"), sx.H("results")
		tp := false
		if isFunc {
			tp = sig.TypeParams().Len() > 0
			for i := 0; i < sig.Params().Len(); i++ {
				p := sig.Params().At(i)
				isConv := convType != nil && types.Identical(p.Type(), convType)
				pn.Add(sx.H("p", sx.S(p.Name()), sx.S(p.Type().String()), sx.B(isConv), sx.B(false)))
			}
			for i := 0; i < sig.Results().Len(); i++ {
				t := sig.Results().At(i).Type()
				rn.Add(sx.H("r", sx.S(t.String()), sx.B(t.String() == "error")))
			}
		}
		on.Add(sx.H("typeparams", sx.B(tp)), pn, rn, sx.Strs("localctx", own[name]))
		cands.Add(sx.H("c", sx.S(name), sx.B(full), on))
	}
	return cands, literal
}

const extListQDecls = `import "example.org/extlist/p"

func ExtAToB(s p.C) p.A          { return p.A{} }
func ExtCToA(s p.B) p.A          { return p.A{} }
func OnlyQ(s p.B) p.C            { return p.C{} }
func ExtTwoSources(s p.A, t p.B) p.C { return p.C{} }
func hidden(s p.A) p.C           { return p.C{} }
`

// The extend-LIST campaign (C06, C14): converters with several extend names (one line, several lines, a second package
// declaring functions with the same identifiers, invalid names before and after valid ones, converter-level and global
// lines): the extend list the real configuration stage ends up with (package and name of every entry, in order) or its
// refusal, vs Gv.Signature.extendList over the package scopes as the harness' own load sees them.
func runExtList(e *env) error {
	const mod = "example.org/extlist"
	q := mod + "/q:"
	lineSets := [][]string{
		{"ExtAToB OtherAToB"}, {"OtherAToB ExtAToB"}, {"ExtAToB", "ExtCToA"}, {"ExtAToB ExtAToB"},
		{q + "ExtAToB ExtAToB"}, {"ExtAToB " + q + "ExtAToB"}, {q + "ExtAToB", "ExtAToB"}, {"ExtAToB", q + "ExtAToB", "ExtCToA " + q + "ExtCToA"},
		{q + "Ext.* Ext.*"}, {"Ext.* " + q + "Ext.*"}, {"Ext.*", q + "ExtAToB", "ExtAToB"}, {q + "OnlyQ ExtAToB"}, {"ExtAToB " + q + "ExtAToB ExtAToB"},
		{"ExtTwoSources ExtAToB"}, {"ExtAToB ExtTwoSources"}, {"ExtTwoSources", "ExtAToB"}, {"ExtAToB", "ExtTwoSources"},
		{"extNoResult ExtAToB"}, {"ExtThreeResults ExtAToB"}, {"ExtGeneric ExtAToB"}, {"ExtVarNotFunc ExtAToB"}, {"ExtTypeNotFunc ExtAToB"},
		{"Nope ExtAToB"}, {"ExtAToB Nope"}, {"Nope.* ExtAToB"}, {"ExtAToB Nope.*"}, {"extAToC ExtAToB"}, {"ExtAToB extAToC"},
		{q + "ExtTwoSources ExtAToB"}, {q + "hidden ExtAToB"}, {q + "Nope " + q + "ExtAToB"}, {q + "hid.* ExtAToB"},
		{"ExtThreeResults ExtGeneric ExtAToB"}, {"ExtAToB OtherAToB ExtCToA extBToC"}, {"ext.* Ext.*"}, {"ExtWithCtx ExtAToB"},
	}
	e.rep.Rule += "; extend lists: " + fmt.Sprint(len(lineSets)) + " sets of extend lines (several names per line, several lines, the same identifiers in a second package, unusable names before and after usable ones) on interface converters, variables blocks and as global settings: package and name of every entry of the real configuration stage's extend list, in order, or its refusal, vs Gv.Signature.extendList"
	type ec struct {
		name   string
		lines  []string
		vars   bool
		global bool
		final  string // the output package in effect at the end (set by output:package lines before / after the extend lines)
	}
	// output:package lines around the extend lines: an unexported function is usable exactly when the FINAL output package
	// is its own package, wherever the extend line stands
	type around struct{ pre, post, final string }
	arounds := []around{
		{mod + "/p", "", mod + "/p"},                             // output in p: unexported functions of p are accessible
		{mod + "/p", mod + "/p/generated", mod + "/p/generated"}, // moved away afterwards: not accessible any more
		{mod + "/p/generated", "", mod + "/p/generated"},
	}
	for _, global := range []bool{false, true} {
		root := filepath.Join(e.scratch, fmt.Sprintf("extlist%v", global))
		var conv strings.Builder
		var cases []ec
		files := scratch.Tree{"go.mod": "module " + mod + "\n\ngo 1.18\n", "p/decls.go": "package p\n\n" + extSelDecls, "q/decls.go": "package q\n\n" + extListQDecls}
		var globals []string
		sets := lineSets
		if global {
			// one global line set for the whole run, followed by converter-level lines
			globals = []string{"extend ExtCToA " + q + "ExtAToB"}
			sets = lineSets[:14]
		}
		for i, ls := range sets {
			n := fmt.Sprintf("Conv%d", i)
			var lines strings.Builder
			for _, l := range ls {
				lines.WriteString("// goverter:extend " + l + "\n")
			}
			fmt.Fprintf(&conv, "// goverter:converter\n%stype %s interface {\n\tConvert(source A) B\n}\n\n", lines.String(), n)
			cases = append(cases, ec{n, ls, false, global, ""})
			if !global && (strings.Contains(strings.Join(ls, " "), "extAToC") || i < 3) {
				for k, ar := range arounds {
					an := fmt.Sprintf("Conv%dAr%d", i, k)
					pre, post := "// goverter:output:package "+ar.pre+"\n", ""
					if ar.post != "" {
						post = "// goverter:output:package " + ar.post + "\n"
					}
					fmt.Fprintf(&conv, "// goverter:converter\n%s%s%stype %s interface {\n\tConvert(source A) B\n}\n\n", pre, lines.String(), post, an)
					cases = append(cases, ec{an, ls, false, global, ar.final})
				}
			}
			vf := fmt.Sprintf("p/vars%d.go", i)
			files[vf] = fmt.Sprintf("package p\n\n// goverter:variables\n%svar (\n\tVarConv%d func(source A) B\n)\n", lines.String(), i)
			cases = append(cases, ec{"vars@" + fmt.Sprintf("vars%d", i), ls, true, global, ""})
		}
		files["p/conv.go"] = "package p\n\n" + conv.String()
		if err := scratch.Write(root, files); err != nil {
			return err
		}
		b := gvx.RunBatch(root, gvx.Options{Patterns: []string{"./p", "./q"}, Global: globals})
		if b.DocsErr != nil || b.LoadErr != nil {
			return fmt.Errorf("extlist: scratch packages do not load: %v %v", b.DocsErr, b.LoadErr)
		}
		pp, pq := b.Pkgs[mod+"/p"], b.Pkgs[mod+"/q"]
		if pp == nil || pp.Types == nil || pq == nil || pq.Types == nil {
			return fmt.Errorf("extlist: packages not loaded by the harness")
		}
		byKey := map[string]*gvx.ConvOutcome{}
		for _, oc := range b.Outcomes {
			k := oc.Raw.InterfaceName
			if k == "" {
				k = "vars@" + strings.TrimSuffix(filepath.Base(oc.Raw.FileName), ".go")
			}
			byKey[k] = oc
		}
		var reqs, impl []*sx.Node
		var descr []map[string]any
		for _, c := range cases {
			oc := byKey[c.name]
			if oc == nil {
				return fmt.Errorf("extlist: converter %s not found", c.name)
			}
			var im *sx.Node
			switch {
			case oc.Stage == "config":
				msg := oc.Err
				switch {
				case strings.Contains(msg, "does not have methods with names that match"):
					im = sx.H("err", sx.A("noMatch"))
				case strings.Contains(msg, "does not exist in package"):
					im = sx.H("err", sx.A("notFound"))
				default:
					im = sx.H("err", sx.A(classifyParseErr(strings.TrimSpace(lastLine(msg)))))
				}
			case oc.Conv == nil:
				im = sx.H("err", sx.A("no-config:"+oc.Stage))
			default:
				im = sx.H("ok")
				for _, d := range oc.Conv.Extend {
					im.Add(sx.S(d.Package + ":" + d.Name))
				}
			}
			var convType types.Type
			if !c.vars {
				convType = pp.Types.Scope().Lookup(c.name).Type()
			}
			req := sx.H("extlist", sx.I(len(reqs)),
				sx.H("opts", sx.H("params", sx.A("required")), sx.H("multi", sx.B(false)), sx.H("allowtp", sx.B(false)), sx.H("update", sx.S("")), sx.Strs("localctx", nil)))
			var all []string
			for _, g := range globals {
				all = append(all, strings.TrimPrefix(g, "extend "))
			}
			all = append(all, c.lines...)
			for _, l := range all {
				for _, name := range strings.Fields(l) {
					pkg, pat, scope := mod+"/p", name, pp.Types.Scope()
					// the output of a variables block is the declaring package p: its unexported objects are accessible
					unexp := c.vars || c.final == mod+"/p"
					own := ownContexts(extSelDecls)
					if strings.HasPrefix(name, q) {
						pkg, pat, scope, unexp = mod+"/q", strings.TrimPrefix(name, q), pq.Types.Scope(), false
						own = ownContexts(extListQDecls)
					}
					cands, literal := extCands(scope, pat, unexp, convType, own)
					req.Add(sx.H("entry", sx.H("pkg", sx.S(pkg)), sx.H("literal", sx.B(literal)), sx.H("lit", sx.S(pat)), cands))
				}
			}
			reqs = append(reqs, req)
			impl = append(impl, im)
			descr = append(descr, map[string]any{"converter": c.name, "extend_lines": c.lines, "global_lines": globals, "variables_block": c.vars, "final_output_package": c.final})
			e.rep.Count("extlist." + im.Head())
			e.rep.Nontrivial(fmt.Sprint(c.name, c.lines, global))
		}
		answers, err := drv.Run(reqs)
		if err != nil {
			return err
		}
		e.rep.Eval(len(reqs))
		for i, a := range answers {
			if a.String() != impl[i].String() {
				d := descr[i]
				d["implementation"] = impl[i].String()
				d["model"] = a.String()
				d["declarations_p"] = extSelDecls
				d["declarations_q"] = extListQDecls
				d["broken"] = "correspondence " + e.prop + ": the extend list of the real configuration stage (config.parseConverterLine + pkgload.GetMatching) vs Gv.Signature.extendList"
				e.rep.Violation("", d, false)
			}
		}
	}
	return nil
}
