package main

import (
	"fmt"
	"os"
	"path/filepath"
	"regexp"
	"sort"
	"strings"
	"sync"
	"time"

	"gvh/internal/proj"
	"gvh/internal/scratch"
)

func init() { campaigns["C09"] = runC09 }

type detCase struct {
	ID      int           `json:"id"`
	Kind    string        `json:"kind"`
	Project *proj.Project `json:"project"`
	Dirs    []string      `json:"dirs"`
}

type runObs struct {
	Variant string            `json:"variant"`
	Args    []string          `json:"args"`
	Exit    int               `json:"exit"`
	Stderr  string            `json:"stderr"`
	Outputs map[string]string `json:"outputs"`
}

func (o *runObs) key() string {
	var ks []string
	for k := range o.Outputs {
		ks = append(ks, k)
	}
	sort.Strings(ks)
	var b strings.Builder
	fmt.Fprintf(&b, "exit=%d\nstderr=%s\n", o.Exit, o.Stderr)
	for _, k := range ks {
		fmt.Fprintf(&b, "== %s\n%s\n", k, o.Outputs[k])
	}
	return b.String()
}

// detProjects builds the inputs: successful ones and failing ones with SEVERAL simultaneous faults,
// so that every place where the code iterates a Go map has more than one candidate.
func detProjects(n int) []*detCase {
	var cs []*detCase
	add := func(kind string, dirs []string, convs ...*proj.Conv) {
		id := len(cs)
		cs = append(cs, &detCase{ID: id, Kind: kind, Dirs: dirs, Project: &proj.Project{Module: fmt.Sprintf("example.org/d%d", id), Convs: convs}})
	}
	for len(cs) < n {
		k := len(cs)
		add("ok-two-packages", []string{"a", "b"},
			&proj.Conv{Dir: "a", File: "conv.go", Name: "ConvA", In: "Deep", Out: "DeepOut"},
			&proj.Conv{Dir: "b", File: "conv.go", Name: "ConvB"},
			&proj.Conv{Dir: "b", File: "vars.go", Vars: true, Name: "ConvV"})
		add("ok-shared-file", []string{"a", "b"},
			&proj.Conv{Dir: "a", File: "conv.go", Name: "ConvA", Lines: []string{"output:file ../out/gen.go"}, In: "Deep", Out: "DeepOut"},
			&proj.Conv{Dir: "b", File: "conv.go", Name: "ConvB", Lines: []string{"output:file ../out/gen.go"}})
		add("ok-cwd-anchored-output", []string{"a", "b"},
			&proj.Conv{Dir: "a", File: "conv.go", Name: "ConvA", Lines: []string{"output:file @cwd/out/gen.go"}, In: "Deep", Out: "DeepOut"},
			&proj.Conv{Dir: "b", File: "conv.go", Name: "ConvB", Lines: []string{"output:file @cwd/b/gen/gen.go"}})
		// six explicit methods whose generated helpers compete for the same name (six packages all called `model`):
		// the order in which explicit methods are built decides who gets which suffix
		{
			id := len(cs)
			mod := fmt.Sprintf("example.org/d%d", id)
			extra := scratch.Tree{"api/api.go": "package api\n\ntype Item struct{ A int }\ntype Order struct {\n\tI  Item\n\tIs []Item\n}\n"}
			var imports, methods strings.Builder
			for v := 1; v <= 6; v++ {
				extra[fmt.Sprintf("v%d/model/m.go", v)] = "package model\n\ntype Item struct{ A int }\ntype Order struct {\n\tI  Item\n\tIs []Item\n}\n"
				fmt.Fprintf(&imports, "\tm%d \"%s/v%d/model\"\n", v, mod, v)
				fmt.Fprintf(&methods, "\tFromV%d(source m%d.Order) api.Order\n", v, v)
			}
			extra["a/conv.go"] = "package a\n\nimport (\n\t\"" + mod + "/api\"\n" + imports.String() + ")\n\n// goverter:converter\ntype Conv interface {\n" + methods.String() + "}\n"
			cs = append(cs, &detCase{ID: id, Kind: "colliding-helper-names", Dirs: []string{"a"}, Project: &proj.Project{Module: mod, Extra: extra}})
		}
		// six explicit methods, each faulty for its own reason at the generation stage: the reported one must not depend
		// on the order in which the methods happen to be built
		add("several-failing-methods", []string{"a"},
			&proj.Conv{Dir: "a", File: "conv.go", Name: "ConvA",
				RawBody: "\tAa(source In) OutBad\n\tBb(source In) Wide\n\tCc(source Deep) Out\n\tDd(source Color) Colour\n\tEe(source *In) Out\n\tFf(source []In) []OutBad\n"})
		add("unknown-fields", []string{"a"},
			&proj.Conv{Dir: "a", File: "conv.go", Name: "ConvA", MethodLines: []string{"ignore Xa Xb Xc Xd", "map V Xe"}})
		add("unknown-enum-keys", []string{"a"},
			&proj.Conv{Dir: "a", File: "conv.go", Name: "ConvA", In: "Color", Out: "Colour",
				MethodLines: []string{"enum:unknown @ignore", "enum:transform regex (.*) Colour$1", "enum:map Ka @ignore", "enum:map Kb @ignore", "enum:map Kc @ignore"}})
		add("faulty-variables", []string{"a"},
			&proj.Conv{Dir: "a", File: "vars.go", Vars: true, Name: "ConvV",
				RawBody: "\tV1 func(a In, b In) Out\n\tV2 func(a In, b In) Out\n\tV3 func(a In, b In) Out\n\tV4 func(In) Out\n"})
		add("field-settings-on-non-struct", []string{"a"},
			&proj.Conv{Dir: "a", File: "conv.go", Name: "ConvA",
				RawBody: "\t// goverter:ignore X\n\tA(int) int\n\t// goverter:ignore X\n\tB(string) string\n\t// goverter:ignore X\n\tC(bool) bool\n"})
		// two packages that the go command itself cannot list (missing import / file without package clause) next to a
		// type error: the package named in the diagnostic must not depend on how the patterns are ordered or overlap
		{
			id := len(cs)
			mod := fmt.Sprintf("example.org/d%d", id)
			pr := &proj.Project{Module: mod, Convs: []*proj.Conv{{Dir: "a", File: "conv.go", Name: "ConvA"}, {Dir: "b", File: "conv.go", Name: "ConvB"}, {Dir: "c", File: "conv.go", Name: "ConvC"}},
				Extra: scratch.Tree{"a/broken.go": "package a\n\nimport _ \"" + mod + "/missing/one\"\n", "b/notes.go": "this file has no package clause\n",
					"c/typeerr.go": "package c\n\nvar _ int = \"text\"\n"}}
			cs = append(cs, &detCase{ID: id, Kind: "several-packages-the-go-command-cannot-list", Dirs: []string{"a", "b", "c"}, Project: pr})
		}
		add("two-faulty-packages", []string{"a", "b"},
			&proj.Conv{Dir: "a", File: "conv.go", Name: "ConvA", Fault: "conversion"},
			&proj.Conv{Dir: "b", File: "conv.go", Name: "ConvB", Fault: "directive"})
		add("two-config-faulty-packages", []string{"a", "b"},
			&proj.Conv{Dir: "a", File: "conv.go", Name: "ConvA", Fault: "directive"},
			&proj.Conv{Dir: "b", File: "conv.go", Name: "ConvB", Fault: "methoddirective"})
		add("two-faulty-files", []string{"a"},
			&proj.Conv{Dir: "a", File: "conv1.go", Name: "ConvA", Fault: "signature"},
			&proj.Conv{Dir: "a", File: "conv2.go", Name: "ConvB", Fault: "methoddirective"})
		add("same-name-two-packages", []string{"a", "b"},
			&proj.Conv{Dir: "a", File: "conv.go", Name: "Conv"},
			&proj.Conv{Dir: "b", File: "conv.go", Name: "Conv"})
		add("same-name-shared-file", []string{"a", "b"},
			&proj.Conv{Dir: "a", File: "conv.go", Name: "Conv", Lines: []string{"output:file ../out/gen.go", "output:format function"}, RawBody: "\tFromA(source In) Out\n"},
			&proj.Conv{Dir: "b", File: "conv.go", Name: "Conv", Lines: []string{"output:file ../out/gen.go", "output:format function"}, RawBody: "\tFromB(source In) Out\n"})
		add("missing-contexts", []string{"a"},
			&proj.Conv{Dir: "a", File: "conv.go", Name: "ConvA", Lines: []string{"extend NeedsCtx"},
				Extra:   "func NeedsCtx(source int, ctxA string, ctxB bool) string { return \"\" }\n",
				RawBody: "\t// goverter:context ctxC\n\t// goverter:context ctxD\n\tConvert(source In, ctxC float64, ctxD uint) OutBad\n"})
		// two outputs that cannot be written (a FILE stands where the output directory has to be created): the diagnostic
		// names one of them — the same one in every run
		{
			id := len(cs)
			mod := fmt.Sprintf("example.org/d%d", id)
			pr := &proj.Project{Module: mod, Convs: []*proj.Conv{{Dir: "a", File: "conv.go", Name: "ConvA"}, {Dir: "b", File: "conv.go", Name: "ConvB"}, {Dir: "c", File: "conv.go", Name: "ConvC"}},
				Extra: scratch.Tree{"a/generated": "a file, not a directory\n", "b/generated": "a file, not a directory\n", "c/generated": "a file, not a directory\n"}}
			cs = append(cs, &detCase{ID: id, Kind: "several-unwritable-outputs", Dirs: []string{"a", "b", "c"}, Project: pr})
		}
		// two output files that cannot be RENDERED (output:raw text that is not Go): the diagnostic is that of the same file in every run
		add("several-unrenderable-outputs", []string{"a", "b"},
			&proj.Conv{Dir: "a", File: "conv.go", Name: "ConvA", Lines: []string{"output:raw func broken( {"}},
			&proj.Conv{Dir: "b", File: "conv.go", Name: "ConvB", Lines: []string{"output:raw }} not go"}},
			&proj.Conv{Dir: "b", File: "conv2.go", Name: "ConvC", Lines: []string{"output:file ./other/gen.go", "output:raw type ( x"}})
		// many packages (more patterns than any batch size a loader might use), every converter using ONE custom function of
		// a shared package over a named type of that package: all of them must see the same type, in every run
		{
			id := len(cs)
			mod := fmt.Sprintf("example.org/d%d", id)
			extra := scratch.Tree{"stamp/stamp.go": "package stamp\n\ntype Stamp struct{ V int }\ntype Label struct{ V int }\n\nfunc ToLabel(s Stamp) Label { return Label{V: s.V} }\n"}
			var dirs []string
			for k := 0; k < 36; k++ {
				d := fmt.Sprintf("q%02d", k)
				dirs = append(dirs, d)
				extra[d+"/conv.go"] = "package " + d + "\n\nimport \"" + mod + "/stamp\"\n\ntype In struct{ S stamp.Stamp }\ntype Out struct{ S stamp.Label }\n\n// goverter:converter\n// goverter:extend " + mod + "/stamp:ToLabel\ntype C interface {\n\tConvert(source In) Out\n}\n"
			}
			cs = append(cs, &detCase{ID: id, Kind: "many-packages-one-shared-function", Dirs: dirs, Project: &proj.Project{Module: mod, Extra: extra}})
		}
		if len(cs) == k {
			break
		}
	}
	return cs[:n]
}

func collectOutputs(root string, before map[string]scratch.Entry) map[string]string {
	after, _ := scratch.Snapshot(root)
	out := map[string]string{}
	for p, en := range after {
		if en.Dir {
			continue
		}
		if b, ok := before[p]; ok && b == en {
			continue
		}
		c, _ := os.ReadFile(filepath.Join(root, p))
		out[p] = string(c)
	}
	return out
}

func runC09(e *env) error {
	e.rep.Rule = "cases = projects (successful, and failing with several simultaneous faults so that every map iteration in the code has >= 2 candidates: unknown fields, unknown enum keys, several faulty variables, several methods with misplaced field settings, several faulty packages/files, same-named converters, several missing contexts, six methods failing for different reasons, six explicit methods whose helper names collide); each is run by the goverter binary: baseline, 4 repetitions in fresh processes, permuted and duplicated package patterns, ./... , -cwd (absolute and relative) from another directory, a relocated copy of the module, and over the outputs of the previous run; exit status, stderr (paths relativised to the module root) and the bytes of every written file are compared with the baseline. non-trivial = every case (each has several packages/converters or several faults); distinct = project x variant"
	e.rep.Rule += w10C09Rule
	bin := goverterBin(e)
	base := filepath.Join(e.scratch, "c09")
	_ = os.MkdirAll(base, 0o755)
	n, reps := 19, 4
	if e.thorough {
		n, reps = 48*e.scale, 12
	}
	cases := detProjects(n)
	type result struct {
		obs []*runObs
		err error
	}
	results := make([]result, len(cases))
	var wg sync.WaitGroup
	sem := make(chan struct{}, 6)
	for i, dc := range cases {
		wg.Add(1)
		go func(i int, dc *detCase) {
			defer wg.Done()
			sem <- struct{}{}
			defer func() { <-sem }()
			tree := dc.Project.Tree()
			fresh := func(tag string) (string, map[string]scratch.Entry, error) {
				root := filepath.Join(base, fmt.Sprintf("d%d_%s", dc.ID, tag), "mod")
				if err := scratch.Write(root, tree); err != nil {
					return "", nil, err
				}
				snap, _ := scratch.Snapshot(root)
				return root, snap, nil
			}
			var pats, rev, dup []string
			for _, d := range dc.Dirs {
				pats = append(pats, "./"+d)
				rev = append([]string{"./" + d}, rev...)
			}
			dup = append(append([]string{}, pats...), pats...)
			priorMode := ""
			run := func(variant, tag string, dir func(root string) string, args func(root string) []string, prior bool) {
				root, snap, err := fresh(tag)
				if err != nil {
					results[i].err = err
					return
				}
				if prior {
					scratch.Run(bin, root, append([]string{"gen"}, pats...), nil, 120*time.Second)
					// the previous output as left behind by an OLDER configuration: same header and build constraint, but another
					// package clause / other declarations / a cut-off body. None of it may become an input of the next run.
					for rel, content := range collectOutputs(root, snap) {
						if !strings.HasSuffix(rel, ".go") {
							continue
						}
						switch priorMode {
						case "otherclause":
							content = regexp.MustCompile(`(?m)^package \w+`).ReplaceAllString(content, "package olderapi")
						case "stale":
							content += "\n\nfunc StaleHelperOfAnOlderRun() int { return 1 }\n\ntype StaleImpl struct{ X int }\n"
						case "cutoff":
							if k := strings.Index(content, "func "); k > 0 {
								content = content[:k] + "func ("
							}
						}
						_ = os.WriteFile(filepath.Join(root, rel), []byte(content), 0o644)
					}
				}
				a := args(root)
				res := scratch.Run(bin, dir(root), a, nil, 120*time.Second)
				o := &runObs{Variant: variant, Args: a, Exit: res.Exit, Stderr: scratch.Relativise(root, res.Stderr), Outputs: collectOutputs(root, snap)}
				if res.TimedOut {
					o.Stderr = "TIMEOUT"
				}
				results[i].obs = append(results[i].obs, o)
			}
			inRoot := func(root string) string { return root }
			plain := func(p []string) func(string) []string {
				return func(string) []string { return append([]string{"gen"}, p...) }
			}
			run("baseline", "base", inRoot, plain(pats), false)
			for k := 0; k < reps; k++ {
				run(fmt.Sprintf("repeat-%d", k), fmt.Sprintf("rep%d", k), inRoot, plain(pats), false)
			}
			run("patterns-reversed", "rev", inRoot, plain(rev), false)
			run("patterns-duplicated", "dup", inRoot, plain(dup), false)
			run("pattern-dots", "dots", inRoot, plain([]string{"./..."}), false)
			run("cwd-flag", "cwd", func(root string) string { return filepath.Dir(root) },
				func(root string) []string { return append([]string{"gen", "-cwd", root}, pats...) }, false)
			run("cwd-flag-relative", "cwdrel", func(root string) string { return filepath.Dir(root) },
				func(root string) []string { return append([]string{"gen", "-cwd", filepath.Base(root)}, pats...) }, false)
			run("relocated", "reloc/deeper/place", inRoot, plain(pats), false)
			run("over-previous-output", "hist", inRoot, plain(pats), true)
			for _, pm := range []string{"otherclause", "stale", "cutoff"} {
				priorMode = pm
				run("over-previous-output-"+pm, "hist"+pm, inRoot, plain(pats), true)
			}
			priorMode = ""
			if results[i].err == nil && len(results[i].obs) > 0 {
				results[i].err = w10C09Histories(bin, base, dc, tree, pats, results[i].obs[0], func(o *runObs) { results[i].obs = append(results[i].obs, o) })
			}
		}(i, dc)
	}
	wg.Wait()
	for i, dc := range cases {
		if results[i].err != nil {
			return results[i].err
		}
		obs := results[i].obs
		e.rep.Eval(len(obs))
		baseKey := obs[0].key()
		e.rep.Count(dc.Kind + fmt.Sprintf(".exit%d", obs[0].Exit))
		for _, o := range obs[1:] {
			e.rep.Nontrivial(fmt.Sprintf("%d|%s", dc.ID%15, o.Variant))
			if o.key() != baseKey {
				class := "nondeterminism:" + dc.Kind
				e.rep.Violation(class, map[string]any{"case": dc, "baseline": obs[0], "differs": o,
					"broken": "C09: two runs of the goverter binary on the same input differ", "diff": firstLineDiff(baseKey, o.key())}, false)
				break
			}
		}
		if i < 4 {
			e.rep.Sample(map[string]any{"kind": dc.Kind, "variants": len(obs), "exit": obs[0].Exit, "stderr_head": truncate(obs[0].Stderr, 200)})
		}
	}
	return nil
}

func firstLineDiff(a, b string) string {
	la, lb := strings.Split(a, "\n"), strings.Split(b, "\n")
	for i := 0; i < len(la) && i < len(lb); i++ {
		if la[i] != lb[i] {
			return fmt.Sprintf("line %d: %q vs %q", i+1, truncate(la[i], 200), truncate(lb[i], 200))
		}
	}
	return fmt.Sprintf("length %d vs %d lines", len(la), len(lb))
}
