package main

import (
	"fmt"
	"os"
	"path/filepath"
	"sort"
	"strings"
	"sync"

	"gvh/internal/drv"
	"gvh/internal/gvx"
	"gvh/internal/rng"
	"gvh/internal/scratch"
	"gvh/internal/sx"
	"gvh/internal/tygen"
)

func init() { campaigns["C03"] = runC03 }

type k1Case struct {
	Origin      string   `json:"origin"`
	Converter   string   `json:"converter"`
	Source      string   `json:"source,omitempty"`
	Global      []string `json:"global,omitempty"`
	Unsupported []string `json:"unsupported,omitempty"`
	impl        *sx.Node
	req         *sx.Node
	implErr     string
}

// k1FromBatch turns the outcomes of one in-process batch into cases for the model.
func k1FromBatch(origin string, b *gvx.Batch, sources map[string]string, global []string) []*k1Case {
	var out []*k1Case
	for _, oc := range b.Outcomes {
		name := oc.Raw.InterfaceName
		if name == "" {
			name = "variables@" + filepath.Base(oc.Raw.FileName)
		}
		kc := &k1Case{Origin: origin, Converter: name, Source: sources[oc.Raw.InterfaceName], Global: global}
		switch oc.Stage {
		case "config":
			// configuration-stage outcomes are covered by C12/C14; the generator model starts from a configured converter
			continue
		case "ok":
			tbl, err := gvx.MethodTable(oc.Files)
			if err != nil {
				kc.impl = sx.H("err", sx.A("renderError"))
				kc.implErr = err.Error()
			} else {
				kc.impl = tbl
			}
		case "generate":
			kc.impl = sx.H("err", sx.A(gvx.ClassifyGenErr(oc.Err)))
			kc.implErr = oc.Err
		default:
			kc.impl = sx.H("err", sx.A(oc.Stage))
			kc.implErr = oc.Err
		}
		kc.req, kc.Unsupported = gvx.GenRequest(0, oc.Conv)
		if len(kc.Unsupported) == 0 && len(oc.Conv.OutputRaw) == 0 {
			gvx.AddLifted(kc.req, oc)
		}
		if len(oc.Conv.OutputRaw) > 0 {
			kc.Unsupported = append(kc.Unsupported, "output:raw (user code, excluded by the statement)")
		}
		out = append(out, kc)
	}
	return out
}

func runC03(e *env) error {
	e.rep.Rule = "cases = configured converters (the repository's scenario corpus first, then generated type pairs) run through generator.Generate one by one; the generator model Gv.Gen.generate gets the same converter (types translated from go/types, settings and custom function signatures as resolved by config.Parse) and must produce the same outcome: the diagnostic class, or the same table of generated methods (name, number of parameters, error result). non-trivial = a rule other than identical basic types fired or a diagnostic was produced; distinct = converter text"
	base := filepath.Join(e.scratch, "c03")
	_ = os.MkdirAll(base, 0o755)
	scs, err := gvx.LoadScenarios(e.repo)
	if err != nil {
		return err
	}
	var mu sync.Mutex
	var cases []*k1Case
	var wg sync.WaitGroup
	sem := make(chan struct{}, 12)
	for i, sc := range scs {
		wg.Add(1)
		go func(i int, sc *gvx.Scenario) {
			defer wg.Done()
			sem <- struct{}{}
			defer func() { <-sem }()
			root := filepath.Join(base, "sc", sc.Name)
			if err := gvx.WriteScenario(root, sc); err != nil {
				return
			}
			pats := sc.Patterns
			if len(pats) == 0 {
				pats = []string{"github.com/jmattheis/goverter/execution"}
			}
			b := gvx.RunBatch(root, gvx.Options{Patterns: pats, Global: sc.Global, Constraint: "!goverter"})
			if b.DocsErr != nil {
				return
			}
			var srcs []string
			for _, c := range sc.Input {
				srcs = append(srcs, c)
			}
			sort.Strings(srcs)
			ks := k1FromBatch("scenario/"+sc.Name, b, nil, sc.Global)
			for _, k := range ks {
				k.Source = strings.Join(srcs, "\n// ---\n")
			}
			mu.Lock()
			cases = append(cases, ks...)
			mu.Unlock()
		}(i, sc)
	}
	wg.Wait()
	sort.Slice(cases, func(i, j int) bool { return cases[i].Origin+cases[i].Converter < cases[j].Origin+cases[j].Converter })
	var reqs []*sx.Node
	for _, k := range cases {
		reqs = append(reqs, k.req)
	}
	answers, err := drv.Run(reqs)
	if err != nil {
		return err
	}
	e.rep.Eval(len(reqs))
	nUnsupported := 0
	var sym symAcc
	for i, a := range answers {
		k := cases[i]
		model := gvx.ModelTable(a)
		if len(k.Unsupported) > 0 || strings.HasPrefix(model.String(), "(err unsupported") {
			nUnsupported++
			e.rep.Count("unsupported")
			continue
		}
		e.rep.Nontrivial(k.Origin + k.Converter)
		e.rep.Count("scenario." + k.impl.Head())
		if model.String() != k.impl.String() {
			e.rep.Violation("", map[string]any{"case": k, "implementation": k.impl.String(), "model": model.String(), "impl_error": truncate(k.implErr, 800),
				"broken": "correspondence C03: Gv.Gen.generate vs generator.Generate"}, false)
		}
		symK1(e, &sym, k, a)
	}
	sym.report(e, "C03 (scenario corpus)")
	e.rep.Note("scenario corpus: %d converters reached the generator, %d outside the modelled fragment", len(cases), nUnsupported)
	if err := c03Generated(e, base); err != nil {
		return err
	}
	// one converter, several methods with DIFFERENT method-level settings over shared nested pairs: whether a pair is
	// convertible is decided per method (an opt-in of one method does not make the pair convertible for its sibling)
	e.rep.Rule += "; plus converters whose methods carry different method-level settings (useZeroValueOnPointerInconsistency, skipCopySameType, enum no, wrapErrors) over shared nested pairs, in both generation orders: outcome and executed results vs the model"
	nb := 1
	if e.thorough {
		nb = 2 * e.scale
	}
	return runFamilies(e, "C03", "siblings", famSiblings, nb, 36, 3, nil, nil)
}

var c03ConvFlags = []string{"skipCopySameType", "useZeroValueOnPointerInconsistency", "ignoreMissing", "ignoreUnexported", "matchIgnoreCase", "enum no", "useUnderlyingTypeMethods"}

// genConverterSource renders one converter interface for a (source, target) pair with random settings.
func genConverterSource(r *rng.R, g *tygen.Gen, name string, s, t tygen.T, settings bool) string {
	var b strings.Builder
	b.WriteString("// goverter:converter\n")
	if settings {
		for _, f := range c03ConvFlags {
			if r.Chance(12) {
				b.WriteString("// goverter:" + f + "\n")
			}
		}
	}
	b.WriteString("type " + name + " interface {\n")
	if settings {
		tf := g.StructFields(t)
		sf := g.StructFields(s)
		if len(tf) > 0 && r.Chance(30) {
			f := rng.Pick(r, tf)
			switch r.Intn(4) {
			case 0:
				b.WriteString("\t// goverter:ignore " + f.Name + "\n")
			case 1:
				if len(sf) > 0 {
					b.WriteString("\t// goverter:map " + rng.Pick(r, sf).Name + " " + f.Name + "\n")
				}
			case 2:
				b.WriteString("\t// goverter:map . " + f.Name + "\n")
			default:
				b.WriteString("\t// goverter:ignore Nope\n")
			}
		}
		if len(sf) > 0 && r.Chance(8) {
			b.WriteString("\t// goverter:autoMap " + rng.Pick(r, sf).Name + "\n")
		}
		for _, f := range c03ConvFlags {
			if r.Chance(6) {
				b.WriteString("\t// goverter:" + f + rng.Pick(r, []string{"", " no", " yes"}) + "\n")
			}
		}
	}
	b.WriteString("\tConvert(source " + s.Src() + ") " + t.Src() + "\n}\n\n")
	return b.String()
}

func c03Generated(e *env, base string) error {
	r := e.r.Fork(3)
	type batch struct {
		root    string
		sources map[string]string
		tag     string
	}
	var batches []batch
	mk := func(tag string, fill func(g *tygen.Gen, add func(s, t tygen.T, settings bool))) error {
		g := tygen.New(r.Fork(uint64(len(batches))))
		srcs := map[string]string{}
		var convs strings.Builder
		n := 0
		fill(g, func(s, t tygen.T, settings bool) {
			name := fmt.Sprintf("C%d", n)
			n++
			src := genConverterSource(r, g, name, s, t, settings)
			srcs[name] = src
			convs.WriteString(src)
		})
		root := filepath.Join(base, fmt.Sprintf("gen%d", len(batches)))
		tree := scratch.Tree{"go.mod": fmt.Sprintf("module example.org/c03g%d\n\ngo 1.18\n", len(batches)),
			"p/types.go": "package p\n\n" + g.Source(), "p/conv.go": "package p\n\n" + convs.String()}
		if err := scratch.Write(root, tree); err != nil {
			return err
		}
		batches = append(batches, batch{root, srcs, tag})
		return nil
	}
	nRandom, perBatch := 2, 300
	if e.thorough {
		nRandom, perBatch = 12*e.scale, 500
	}
	for b := 0; b < nRandom; b++ {
		if err := mk("random", func(g *tygen.Gen, add func(s, t tygen.T, settings bool)) {
			for i := 0; i < perBatch; i++ {
				s := g.Type(1 + r.Intn(3))
				var t tygen.T
				if r.Chance(75) {
					t = g.Mirror(s, tygen.MirrorOpts{PtrFlip: 12, KindFlip: 4, DropField: 8, ReCase: 6, ArrayFlip: 10}, 0)
				} else {
					t = g.Type(1 + r.Intn(2))
				}
				add(s, t, true)
			}
		}); err != nil {
			return err
		}
	}
	// all ordered pairs of small types (depth <= 1 in the quick tier, <= 2 in the thorough tier), without settings
	depth := 1
	if e.thorough {
		depth = 2
	}
	{
		g0 := tygen.New(r.Fork(99))
		small := g0.Small(depth)
		chunk := 1500
		total := len(small) * len(small)
		for start := 0; start < total; start += chunk {
			st := start
			if err := mk("exhaustive", func(g *tygen.Gen, add func(s, t tygen.T, settings bool)) {
				g.Decls = append(g.Decls, g0.Decls...)
				for k := st; k < st+chunk && k < total; k++ {
					add(small[k/len(small)], small[k%len(small)], false)
				}
			}); err != nil {
				return err
			}
		}
		e.rep.Note("exhaustive: all %d ordered pairs of %d small types (constructor depth <= %d)", total, len(small), depth)
	}
	// the field-selection family of C05 (map / autoMap / matchIgnoreCase / ignoreMissing / ignore interplay, with the
	// pinned ambiguous-candidates instances), generation outcome only
	{
		nf := 48
		if e.thorough {
			nf = 480
		}
		var fs []*famOut
		rf := r.Fork(777)
		for i := 0; i < nf; i++ {
			fs = append(fs, famFields(rf, i))
		}
		m := merge(fs...)
		var convs strings.Builder
		for _, n := range m.Order {
			convs.WriteString(m.Convs[n])
		}
		root := filepath.Join(base, fmt.Sprintf("gen%d", len(batches)))
		tree := scratch.Tree{"go.mod": fmt.Sprintf("module example.org/c03g%d\n\ngo 1.18\n", len(batches)),
			"p/types.go": "package p\n\n" + m.Types, "p/conv.go": "package p\n\n" + convs.String()}
		// the variables blocks of the family (output in the declaring package, where ignoreUnexported differs from accessibility)
		for rel, content := range m.Pkgs {
			if strings.HasPrefix(rel, "p/") {
				tree[rel] = content
			}
		}
		if err := scratch.Write(root, tree); err != nil {
			return err
		}
		batches = append(batches, batch{root, m.Convs, "fields"})
	}
	var mu sync.Mutex
	var cases []*k1Case
	var wg sync.WaitGroup
	sem := make(chan struct{}, 8)
	var firstErr error
	for _, b := range batches {
		wg.Add(1)
		go func(b batch) {
			defer wg.Done()
			sem <- struct{}{}
			defer func() { <-sem }()
			res := gvx.RunBatch(b.root, gvx.Options{Patterns: []string{"./p"}, Constraint: "!goverter"})
			mu.Lock()
			defer mu.Unlock()
			if res.DocsErr != nil {
				if firstErr == nil {
					firstErr = fmt.Errorf("c03: generated package does not load: %s", truncate(res.DocsErr.Error(), 1500))
				}
				return
			}
			cases = append(cases, k1FromBatch("generated/"+b.tag, res, b.sources, nil)...)
		}(b)
	}
	wg.Wait()
	if firstErr != nil {
		return firstErr
	}
	sort.Slice(cases, func(i, j int) bool { return cases[i].Source < cases[j].Source })
	var reqs []*sx.Node
	for _, k := range cases {
		reqs = append(reqs, k.req)
	}
	answers, err := drv.Run(reqs)
	if err != nil {
		return err
	}
	e.rep.Eval(len(reqs))
	var sym symAcc
	defer func() { sym.report(e, "C03 (generated pairs)") }()
	for i, a := range answers {
		k := cases[i]
		model := gvx.ModelTable(a)
		if len(k.Unsupported) > 0 || strings.HasPrefix(model.String(), "(err unsupported") {
			e.rep.Count("unsupported")
			continue
		}
		symK1(e, &sym, k, a)
		e.rep.Nontrivial(k.Source)
		cls := k.impl.Head()
		if cls == "err" {
			cls = k.impl.L[1].S
		}
		e.rep.Count(k.Origin + "." + cls)
		if model.String() != k.impl.String() {
			e.rep.Violation("", map[string]any{"case": k, "implementation": k.impl.String(), "model": model.String(), "impl_error": truncate(k.implErr, 800),
				"broken": "correspondence C03: Gv.Gen.generate vs generator.Generate"}, false)
		}
		if i%401 == 0 {
			e.rep.Sample(map[string]any{"converter": k.Source, "outcome": k.impl.String()})
		}
	}
	return nil
}

// symAcc accumulates the plan-level tie of a K1 campaign (see symReport).
type symAcc struct {
	equal, unliftable int
	diffs             []map[string]any
	samples           []string
}

func symK1(e *env, acc *symAcc, k *k1Case, a *sx.Node) {
	sr := gvx.SymOf(a)
	if sr == nil {
		return
	}
	acc.equal += sr.Equal
	acc.unliftable += len(sr.Unliftable)
	if len(sr.Unliftable) > 0 && len(acc.samples) < 3 {
		acc.samples = append(acc.samples, sr.Unliftable[0])
	}
	for _, d := range sr.Diffs {
		acc.diffs = append(acc.diffs, map[string]any{"case": k, "method": d.Method, "model_term": d.Model, "emitted_code_term": d.Impl})
	}
}

func (acc *symAcc) report(e *env, what string) {
	symReport(e, what, acc.equal, acc.unliftable, acc.diffs, acc.samples)
}
