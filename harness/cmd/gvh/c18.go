package main

import (
	"fmt"
	"os"
	"path/filepath"
	"sort"
	"strings"
	"sync"

	"gvh/internal/drv"
	"gvh/internal/gvx"
	"gvh/internal/k2"
	"gvh/internal/rng"
	"gvh/internal/scratch"
	"gvh/internal/sx"
)

func init() { campaigns["C18"] = runC18 }

type shapeCase struct {
	Origin    string   `json:"origin"`
	Converter string   `json:"converter"`
	Source    string   `json:"source,omitempty"`
	Imports   []string `json:"imports"`
	Decls     []string `json:"declarations"`
	oc        *gvx.ConvOutcome
	req       *sx.Node
	unsup     []string
}

func runC18(e *env) error {
	e.rep.Rule = "cases = every file emitted for (a) the repository's scenario corpus, (b) generated converters with custom functions, the three error-wrapping modes, enum actions, default constructors, update methods with every zero-value guard (also on structs Go cannot compare), field mappings and source-struct methods, byte / rune slices, (c) random structural converters; the Go AST of each emitted file is checked: no import of reflect; unsafe only when a user type lives there; every other import is a package owning a type or custom function reachable from the converter's signatures, fmt exactly when the model's plan contains an @error/@panic enum action or a wrapErrors site whose innermost element is a field or index (Gv.Emit.methodsNeeds), the wrapErrorsUsing package exactly when a wrapped error site exists; top-level declarations are only the empty converter struct, functions/methods and init (output:raw code excluded). non-trivial = the file has at least one import besides the user's package or more than one declaration; distinct = emitted text"
	base := filepath.Join(e.scratch, "c18")
	_ = os.MkdirAll(base, 0o755)
	var mu sync.Mutex
	var cases []*shapeCase
	addBatch := func(origin string, b *gvx.Batch, sources map[string]string) {
		for _, oc := range b.Outcomes {
			if oc.Stage != "ok" {
				continue
			}
			sh, err := gvx.ShapeOf(oc.Files)
			sc := &shapeCase{Origin: origin, Converter: oc.Raw.InterfaceName, Source: sources[oc.Raw.InterfaceName], oc: oc}
			if err != nil {
				mu.Lock()
				e.rep.Violation("emitted-file-does-not-parse", map[string]any{"case": sc, "error": err.Error()}, false)
				mu.Unlock()
				continue
			}
			sc.Imports, sc.Decls = sh.Imports, sh.Decls
			sc.req, sc.unsup = gvx.GenRequest(0, oc.Conv)
			if len(sc.unsup) == 0 && len(oc.Conv.OutputRaw) == 0 {
				gvx.AddLifted(sc.req, oc)
			}
			mu.Lock()
			cases = append(cases, sc)
			mu.Unlock()
		}
	}
	var wg sync.WaitGroup
	var genErr error
	sem := make(chan struct{}, 10)
	scs, err := gvx.LoadScenarios(e.repo)
	if err != nil {
		return err
	}
	for _, sc := range scs {
		wg.Add(1)
		go func(sc *gvx.Scenario) {
			defer wg.Done()
			sem <- struct{}{}
			defer func() { <-sem }()
			root := filepath.Join(base, "sc", sc.Name)
			if gvx.WriteScenario(root, sc) != nil {
				return
			}
			pats := sc.Patterns
			if len(pats) == 0 {
				pats = []string{"github.com/jmattheis/goverter/execution"}
			}
			b := gvx.RunBatch(root, gvx.Options{Patterns: pats, Global: sc.Global, Constraint: "!goverter"})
			if b.DocsErr == nil {
				addBatch("scenario/"+sc.Name, b, nil)
			}
		}(sc)
	}
	// generated: families that exercise fmt / wrap imports
	r := e.r.Fork(18)
	nb, per := 2, 20
	if e.thorough {
		nb, per = 8*e.scale, 40
	}
	for bi := 0; bi < nb; bi++ {
		var fs []*famOut
		for i := 0; i < per; i++ {
			fs = append(fs, famExtend(r, bi*1000+i), famEnum(r, bi*1000+i), famDefault(r, bi*1000+i), famUpdateOpt(r, bi*1000+i, true), famFields(r, bi*1000+i), famMethods(r, bi*1000+i), famBytes(r, bi*1000+i))
		}
		kb := merge(fs...)
		wg.Add(1)
		go func(bi int, kb *famOut) {
			defer wg.Done()
			sem <- struct{}{}
			defer func() { <-sem }()
			module := fmt.Sprintf("example.org/c18g%d", bi)
			root := filepath.Join(base, fmt.Sprintf("g%d", bi))
			var convs strings.Builder
			for _, n := range kb.Order {
				convs.WriteString(strings.ReplaceAll(kb.Convs[n], "MODULE", module))
			}
			timports := ""
			if len(kb.TypeImports) > 0 {
				timports = "import (\n\t" + strings.ReplaceAll(strings.Join(kb.TypeImports, "\n\t"), "MODULE", module) + "\n)\n\n"
			}
			tree := scratch.Tree{"go.mod": "module " + module + "\n\ngo 1.18\n", "p/types.go": "package p\n\n" + timports + kb.Types, "p/conv.go": "package p\n\n" + convImports(timports, kb.ConvAnchors) + convs.String(),
				"p/custom.go": "package p\n\nimport \"" + module + "/rt\"\n\nvar _ = rt.Boom\n\n" + kb.Custom}
			for k, v := range k2.SupportFiles(module) {
				tree[k] = v
			}
			for k, v := range kb.Pkgs {
				tree[k] = strings.ReplaceAll(v, "MODULE", module)
			}
			if err := scratch.Write(root, tree); err != nil {
				mu.Lock()
				genErr = err
				mu.Unlock()
				return
			}
			b := gvx.RunBatch(root, gvx.Options{Patterns: []string{"./p"}, Constraint: "!goverter"})
			if b.DocsErr != nil {
				mu.Lock()
				genErr = fmt.Errorf("c18: generated package does not load: %s", truncate(b.DocsErr.Error(), 1500))
				mu.Unlock()
				return
			}
			addBatch("generated/families", b, kb.Convs)
		}(bi, kb)
	}
	wg.Wait()
	if genErr != nil {
		return genErr
	}
	sort.Slice(cases, func(i, j int) bool { return cases[i].Origin+cases[i].Converter < cases[j].Origin+cases[j].Converter })
	var reqs []*sx.Node
	for _, c := range cases {
		reqs = append(reqs, c.req)
	}
	answers, err := drv.Run(reqs)
	if err != nil {
		return err
	}
	e.rep.Eval(len(cases))
	var sym symAcc
	defer func() { sym.report(e, "C18") }()
	for i, c := range cases {
		conv := c.oc.Conv
		if sr := gvx.SymOf(answers[i]); sr != nil && len(c.unsup) == 0 {
			sym.equal += sr.Equal
			sym.unliftable += len(sr.Unliftable)
			for _, d := range sr.Diffs {
				sym.diffs = append(sym.diffs, map[string]any{"case": c, "method": d.Method, "model_term": d.Model, "emitted_code_term": d.Impl})
			}
		}
		reach := gvx.ReachablePackages(conv)
		nontrivial := len(c.Imports) > 1 || len(c.Decls) > 2
		if nontrivial {
			e.rep.Nontrivial(c.Origin + c.Converter + strings.Join(c.Imports, ","))
		}
		problems := []string{}
		modelOK := answers[i].Head() == "ok" && len(c.unsup) == 0
		needFmt, wraps := false, []string(nil)
		if modelOK {
			needFmt, wraps = gvx.ModelNeeds(answers[i])
		}
		hasRaw := len(conv.OutputRaw) > 0
		for _, im := range c.Imports {
			switch {
			case im == "reflect" && !reach["reflect"]:
				problems = append(problems, "imports reflect")
			case im == "unsafe" && !reach["unsafe"]:
				problems = append(problems, "imports unsafe although no user type lives there")
			case im == "fmt":
				if modelOK && !needFmt && !reach["fmt"] && !hasRaw {
					problems = append(problems, "imports fmt although no @error/@panic action or wrapErrors site exists")
				}
			case reach[im]:
			case conv.WrapErrorsUsing != "" && im == conv.WrapErrorsUsing, methodWrapPkg(conv, im):
				if modelOK && !contains(wraps, im) {
					problems = append(problems, "imports the wrapErrorsUsing package "+im+" although no wrapped error site exists")
				}
			default:
				if !hasRaw {
					problems = append(problems, "imports "+im+" which owns no type or custom function used by the conversions")
				}
			}
		}
		if modelOK && needFmt && !contains(c.Imports, "fmt") {
			problems = append(problems, "fmt needed by an @error/@panic action or wrapErrors site but not imported")
		}
		for _, w := range wraps {
			if modelOK && !contains(c.Imports, w) {
				problems = append(problems, "wrap package "+w+" needed but not imported")
			}
		}
		nStruct := 0
		for _, d := range c.Decls {
			switch {
			case strings.HasPrefix(d, "func:"), strings.HasPrefix(d, "method:"):
			case strings.HasPrefix(d, "type-emptystruct:"):
				nStruct++
			default:
				if !hasRaw {
					problems = append(problems, "top-level declaration "+d+" (only the converter struct, functions and init are allowed)")
				}
			}
		}
		e.rep.Count(strings.SplitN(c.Origin, "/", 2)[0] + fmt.Sprintf(".imports=%d", len(c.Imports)))
		if len(problems) > 0 {
			e.rep.Violation("", map[string]any{"case": c, "problems": problems, "model_needs_fmt": needFmt, "model_wrap": wraps,
				"broken": "C18: imports / top-level declarations of an emitted file"}, false)
		}
		if i%97 == 0 {
			e.rep.Sample(map[string]any{"origin": c.Origin, "converter": c.Converter, "imports": c.Imports, "declarations": c.Decls})
		}
	}
	_ = rng.New
	return nil
}

func contains(xs []string, x string) bool {
	for _, y := range xs {
		if y == x {
			return true
		}
	}
	return false
}

func methodWrapPkg(c interface{ PackageID() string }, im string) bool { return false }
