package main

import (
	"fmt"
	"os"
	"strings"

	"gvh/internal/rng"
)

// runFamilies builds batches of `per` family instances each, executes them and reports every difference between the
// compiled generated code and the model (Gv.Gen + Gv.Eval).  classify may name a known class for a difference.
func runFamilies(e *env, prop, tag string, fam func(r *rng.R, id int) *famOut, batches, per, vals int,
	classify func(c *k2Call) string, inspect func(c *k2Call)) error {
	r := e.r.Fork(uint64(len(prop)) * 7919)
	var kbs []*k2Batch
	for b := 0; b < batches; b++ {
		var fs []*famOut
		for i := 0; i < per; i++ {
			fs = append(fs, fam(r, b*1000+i))
		}
		kb := merge(fs...).batch(tag, vals)
		kbs = append(kbs, kb)
	}
	res, err := runK2(e, strings.ToLower(prop)+strings.ReplaceAll(tag, "-", ""), kbs)
	if err != nil {
		return err
	}
	for _, be := range res.BuildErrors {
		e.rep.Violation("generated-code-does-not-compile", map[string]any{"build_output": be, "broken": prop + ": code emitted for a successful generation does not compile"}, false)
	}
	for _, gm := range res.GenMismatch {
		gm["broken"] = "correspondence " + prop + ": generation outcome, Gv.Gen.generate vs generator.Generate"
		e.rep.Violation("", gm, false)
	}
	e.rep.Eval(len(res.Calls) + res.GenCompared)
	for k, v := range res.GenOutcomes {
		for i := 0; i < v; i++ {
			e.rep.Count(tag + ".gen." + k)
		}
	}
	for i, c := range res.Calls {
		e.rep.Nontrivial(c.Source + c.Method + strings.Join(c.Values, " "))
		head := c.Impl
		if j := strings.Index(head, " "); j > 0 {
			head = head[:j]
		}
		e.rep.Count(tag + ".call." + strings.Trim(head, "()"))
		if d := os.Getenv("GVH_DUMP"); d != "" && strings.Contains(c.Method, d) {
			fmt.Fprintln(os.Stderr, "DUMP", c.Converter, c.Method, truncate(strings.Join(c.Values, " "), 300), "=>", truncate(c.Impl, 300), "| MODEL", truncate(c.Model, 300))
		}
		if c.Impl != c.Model {
			class := ""
			if classify != nil {
				class = classify(c)
			}
			e.rep.Violation(class, map[string]any{"call": c, "broken": "correspondence " + prop + ": the compiled generated code vs Gv.Gen + Gv.Eval"}, false)
			continue
		}
		if inspect != nil {
			inspect(c)
		}
		if i%499 == 0 {
			e.rep.Sample(map[string]any{"converter": c.Source, "method": c.Method, "arguments": c.Values, "result": truncate(c.Impl, 400)})
		}
	}
	e.rep.Note("converters executed: %d, outside the modelled fragment: %d", res.Generated, res.Unsupported)
	if os.Getenv("GVH_DEBUG") != "" {
		for _, ge := range res.GenErrors {
			fmt.Fprintln(os.Stderr, "GENERR", strings.ReplaceAll(ge, "\n", " | "))
		}
	}
	return nil
}
