package main

import (
	"fmt"
	"os"
	"strings"

	"gvh/internal/rng"
)

// runFamilies builds batches of `per` family instances each, executes them and reports every difference between the
// compiled generated code and the model (Gv.Gen + Gv.Eval).  classify may name a known class for a difference.
func runFamilies(e *env, prop, tag string, fam func(r *rng.R, id int) *famOut, batches, per, vals int,
	classify func(c *k2Call) string, inspect func(c *k2Call)) error {
	r := e.r.Fork(uint64(len(prop)) * 7919)
	var kbs []*k2Batch
	for b := 0; b < batches; b++ {
		var fs []*famOut
		for i := 0; i < per; i++ {
			fs = append(fs, fam(r, b*1000+i))
		}
		kb := merge(fs...).batch(tag, vals)
		// ask the driver whether each generated program lies in the fragments of the composite theorems
		kb.Spec = "fragment"
		kbs = append(kbs, kb)
	}
	res, err := runK2(e, strings.ToLower(prop)+strings.ReplaceAll(tag, "-", ""), kbs)
	if err != nil {
		return err
	}
	for _, be := range res.BuildErrors {
		e.rep.Violation("generated-code-does-not-compile", map[string]any{"build_output": be, "converters_named": buildErrSources(be, kbs), "broken": prop + ": code emitted for a successful generation does not compile"}, false)
	}
	for _, gm := range res.GenMismatch {
		gm["broken"] = "correspondence " + prop + ": generation outcome, Gv.Gen.generate vs generator.Generate"
		e.rep.Violation("", gm, false)
	}
	e.rep.Eval(len(res.Calls) + res.GenCompared)
	for k, v := range res.GenOutcomes {
		for i := 0; i < v; i++ {
			e.rep.Count(tag + ".gen." + k)
		}
	}
	for i, c := range res.Calls {
		e.rep.Nontrivial(c.Source + c.Method + strings.Join(c.Values, " "))
		head := c.Impl
		if j := strings.Index(head, " "); j > 0 {
			head = head[:j]
		}
		e.rep.Count(tag + ".call." + strings.Trim(head, "()"))
		if d := os.Getenv("GVH_DUMP"); d != "" && strings.Contains(c.Method, d) {
			fmt.Fprintln(os.Stderr, "DUMP", c.Converter, c.Method, truncate(strings.Join(c.Values, " "), 300), "=>", truncate(c.Impl, 300), "| MODEL", truncate(c.Model, 300))
		}
		if c.Impl != c.Model {
			class := ""
			if classify != nil {
				class = classify(c)
			}
			e.rep.Violation(class, map[string]any{"call": c, "broken": "correspondence " + prop + ": the compiled generated code vs Gv.Gen + Gv.Eval"}, false)
			continue
		}
		if inspect != nil {
			inspect(c)
		}
		if i%499 == 0 {
			e.rep.Sample(map[string]any{"converter": c.Source, "method": c.Method, "arguments": c.Values, "result": truncate(c.Impl, 400)})
		}
	}
	e.rep.Note("converters executed: %d, outside the modelled fragment: %d", res.Generated, res.Unsupported)
	if res.FragmentAsked > 0 {
		e.rep.Note("%s: of %d generated programs, %d pass PathCheck.pathsOK (every error site carries its position: C07_path_is_position applies for ALL values), %d pass PlanCheck.checkProgU (C10_composite / C05_composite_ignored_unassigned apply), %d pass PlanCheck.checkProg (C02_composite / C04_composite apply)",
			tag, res.FragmentAsked, res.PathsOK, res.InFragmentU, res.InFragment)
		e.rep.Note("%s: %d pass CustomCheck.customsFirst (custom functions and declared methods first at every typed position: C06_every_occurrence applies), %d pass PlanCheckS.checkProgS (C04_skipcopy_composite applies; %d of them have a skipCopySameType sharing position)",
			tag, res.CustomsFirst, res.InFragmentS, res.HasShare)
		if res.PathsOK != res.FragmentAsked {
			// pathsOK is a statement about the MODEL's generator (the emitted wrap paths are tied to the plan by the plan-level
			// comparison): a plan outside it means Gv.Gen no longer produces what the C07 composite assumes
			e.rep.Violation("model-plan-outside-pathsOK", map[string]any{"programs": res.FragmentAsked, "pathsOK": res.PathsOK,
				"broken": "Gv.Gen produced a plan that PathCheck.pathsOK rejects: theorem C07_path_is_position does not apply to it"}, true)
		}
	}
	if os.Getenv("GVH_DEBUG") != "" {
		for _, ge := range res.GenErrors {
			fmt.Fprintln(os.Stderr, "GENERR", strings.ReplaceAll(ge, "\n", " | "))
		}
	}
	return nil
}
