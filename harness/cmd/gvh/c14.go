package main

import (
	"go/token"
	"go/types"
	"regexp"
	"sort"
	"strings"

	"github.com/jmattheis/goverter/method"

	"gvh/internal/drv"
	"gvh/internal/sx"
)

func init() {
	campaigns["C14"] = runC14
	campaigns["consumers"] = runConsumers
}

type sigWorld struct {
	pkg, other   *types.Package
	in, in2, out *types.Named
	conv         *types.Named
	myErr        *types.Named // a named type called `error` inside a package: NOT the builtin
	errLike      *types.Named // `type VErr error`: NOT the builtin either
	errT         types.Type
}

func newSigWorld() *sigWorld {
	w := &sigWorld{pkg: types.NewPackage("example.org/p", "p"), other: types.NewPackage("example.org/o", "o")}
	mk := func(pkg *types.Package, name string, u types.Type) *types.Named {
		return types.NewNamed(types.NewTypeName(token.NoPos, pkg, name, nil), u, nil)
	}
	st := types.NewStruct([]*types.Var{types.NewField(token.NoPos, w.pkg, "A", types.Typ[types.Int], false)}, nil)
	w.in = mk(w.pkg, "In", st)
	w.in2 = mk(w.pkg, "In2", st)
	w.out = mk(w.pkg, "Out", st)
	w.conv = mk(w.pkg, "Converter", types.NewInterfaceType(nil, nil))
	w.myErr = mk(w.pkg, "error", types.NewInterfaceType(nil, nil))
	w.errT = types.Universe.Lookup("error").Type()
	w.errLike = mk(w.pkg, "VErr", w.errT.Underlying())
	return w
}

type sigParam struct {
	Name string
	Kind string // in | in2 | conv | int | ptr
}

type sigProfile struct {
	Name        string
	Params      method.ParamType
	Multi       bool
	AllowTP     bool
	UseConv     bool
	Update      string
	Regex       string
	LocalCtx    []string
	Generated   bool
	OutPkgOther bool
}

var sigProfiles = []sigProfile{
	{Name: "converter-method", Params: method.ParamsRequired, Generated: true, Regex: ""},
	{Name: "converter-method-ctxregex", Params: method.ParamsRequired, Generated: true, Regex: "^ctx"},
	{Name: "converter-method-update", Params: method.ParamsRequired, Generated: true, Update: "target", Regex: "^ctx"},
	{Name: "converter-method-localctx", Params: method.ParamsRequired, Generated: true, LocalCtx: []string{"lc"}},
	{Name: "extend", Params: method.ParamsRequired, UseConv: true, Regex: "^ctx"},
	{Name: "extend-otherpkg", Params: method.ParamsRequired, UseConv: true, OutPkgOther: true},
	{Name: "map-func", Params: method.ParamsOptional, AllowTP: true, UseConv: true, Regex: "^ctx"},
	{Name: "default", Params: method.ParamsOptional, AllowTP: true, UseConv: true, LocalCtx: []string{"lc"}},
	{Name: "struct-method", Params: method.ParamsNone, Regex: ".*"},
	{Name: "multi-source", Params: method.ParamsRequired, Multi: true, Regex: "^ctx"},
}

var paramAlphabet = []sigParam{
	{"source", "in"}, {"other", "in2"}, {"ctx", "int"}, {"ctxB", "in"}, {"lc", "in2"}, {"c", "conv"}, {"target", "ptr"}, {"", "in"}, {"_", "int"},
}

// errlike: a defined type whose underlying type is that of error (`type VErr error`); errlit: the literal interface{ Error() string }.
// Neither is the built-in error.
var resultAlphabet = []string{"out", "error", "myerror", "int", "errlike", "errlit"}

func classifyParseErr(msg string) string {
	switch {
	case strings.HasSuffix(msg, "must be exported"):
		return "notExported"
	case strings.HasSuffix(msg, "must be a function"):
		return "notFunction"
	case strings.Contains(msg, "is not supported for goverter:update signatures"):
		return "updateResults"
	case strings.Contains(msg, "must exist when using 'goverter:target"):
		return "updateArgMissing"
	case strings.HasSuffix(msg, "must have one or two returns"):
		return "resultCount"
	case strings.Contains(msg, "must have type error as second return but has"):
		return "secondNotError"
	case strings.HasSuffix(msg, "must not be generic"):
		return "generic"
	case strings.HasSuffix(msg, "must have no source params"):
		return "noSourceAllowed"
	case strings.HasSuffix(msg, "must have at least one source param"):
		return "sourceRequired"
	case strings.HasSuffix(msg, "must have only one source param"):
		return "oneSourceOnly"
	}
	return "unclassified:" + msg
}

func runC14(e *env) error {
	e.rep.Rule = "cases = (parse profile, object kind, parameter list, result list): ALL parameter lists of length 0..N over a 9-letter role alphabet (source-typed, second source, regex-context name, local-context name, converter-typed, update-named, unnamed, blank) x ALL result lists of length 0..M over {Out, builtin error, package-level type named error, int, a defined type with error's underlying type, the literal interface{Error() string}} x 10 ParseOpts profiles (converter method, with regex / update / local context, extend, extend from another output package, map|FUNC, default, struct method, multi-source), plus non-function, unexported and generic objects; real method.Parse on go/types objects built in memory vs Gv.Signature.parse. quick: <=3 params x <=2 results over the base result alphabet, error look-alikes and 3 results with <=2 params; thorough: <=4 params x <=2 base results, <=3 params with look-alikes, 3 results with <=2 params. non-trivial = at least one parameter or result; distinct = canonical request"
	if err := runC14Both(e); err != nil {
		return err
	}
	w := newSigWorld()
	maxP, maxR := 3, 2
	if e.thorough {
		maxP, maxR = 4, 3
	}
	var paramLists [][]sigParam
	var rec func(cur []sigParam, n int)
	rec = func(cur []sigParam, n int) {
		paramLists = append(paramLists, append([]sigParam{}, cur...))
		if n == 0 {
			return
		}
		for _, a := range paramAlphabet {
			rec(append(cur, a), n-1)
		}
	}
	rec(nil, maxP)
	var resultLists [][]string
	var recR func(cur []string, n int)
	recR = func(cur []string, n int) {
		resultLists = append(resultLists, append([]string{}, cur...))
		if n == 0 {
			return
		}
		for _, a := range resultAlphabet {
			recR(append(cur, a), n-1)
		}
	}
	recR(nil, 3)

	typeOf := func(k string) types.Type {
		switch k {
		case "in":
			return w.in
		case "in2":
			return w.in2
		case "conv":
			return w.conv
		case "int":
			return types.Typ[types.Int]
		case "ptr":
			return types.NewPointer(w.out)
		case "out":
			return w.out
		case "error":
			return w.errT
		case "myerror":
			return w.myErr
		case "errlike":
			return w.errLike
		case "errlit":
			return w.errT.Underlying()
		}
		panic(k)
	}

	var reqs, impl []*sx.Node
	var descr []map[string]any
	one := func(prof sigProfile, objKind string, ps []sigParam, rs []string) {
		if sigGridSkip(prof, objKind, rs) {
			return
		}
		var rx *regexp.Regexp
		if prof.Regex != "" {
			rx = regexp.MustCompile(prof.Regex)
		}
		local := method.LocalOpts{Context: map[string]bool{}}
		for _, l := range prof.LocalCtx {
			local.Context[l] = true
		}
		var conv types.Type
		if prof.UseConv {
			conv = w.conv
		}
		outPkg := "example.org/p"
		if prof.OutPkgOther {
			outPkg = "example.org/o"
		}
		opts := &method.ParseOpts{ErrorPrefix: "error parsing", OutputPackagePath: outPkg, Converter: conv, Params: prof.Params,
			ParamsMultiSource: prof.Multi, AllowTypeParams: prof.AllowTP, ContextMatch: rx, Generated: prof.Generated, UpdateParam: prof.Update}
		var pvars, rvars []*types.Var
		pn := sx.H("params")
		for _, p := range ps {
			t := typeOf(p.Kind)
			pvars = append(pvars, types.NewParam(token.NoPos, w.pkg, p.Name, t))
			isConv := conv != nil && types.Identical(t, conv)
			match := rx != nil && rx.MatchString(p.Name)
			pn.Add(sx.H("p", sx.S(p.Name), sx.S(t.String()), sx.B(isConv), sx.B(match)))
		}
		rn := sx.H("results")
		for _, r := range rs {
			t := typeOf(r)
			rvars = append(rvars, types.NewParam(token.NoPos, w.pkg, "", t))
			rn.Add(sx.H("r", sx.S(t.String()), sx.B(r == "error")))
		}
		name := "Fn"
		if objKind == "unexported" {
			name = "fn"
		}
		var tparams []*types.TypeParam
		if objKind == "generic" {
			tparams = []*types.TypeParam{types.NewTypeParam(types.NewTypeName(token.NoPos, w.pkg, "T", nil), types.NewInterfaceType(nil, nil))}
		}
		var obj types.Object
		sig := types.NewSignatureType(nil, nil, tparams, types.NewTuple(pvars...), types.NewTuple(rvars...), false)
		if objKind == "var-nonfunc" {
			obj = types.NewVar(token.NoPos, w.pkg, name, w.in)
		} else {
			obj = types.NewFunc(token.NoPos, w.pkg, name, sig)
		}
		accessible := name == "Fn" || outPkg == "example.org/p"
		def, err := method.Parse(obj, opts, local)
		var im *sx.Node
		if err != nil {
			im = sx.H("err", sx.A(classifyParseErr(err.Error())))
		} else {
			roles := sx.H("roles")
			for _, a := range def.RawArgs {
				roles.Add(sx.A(string(a.Use)))
			}
			src, tgt := "", ""
			if def.Source != nil {
				src = def.Source.String
			}
			if def.Target != nil {
				tgt = def.Target.String
			}
			var cs []string
			for k := range def.Context {
				cs = append(cs, k)
			}
			sort.Strings(cs)
			multi := sx.H("multi")
			for _, m := range def.MultiSources {
				multi.Add(sx.S(m.String))
			}
			// the declared order of the parameters must be kept
			for i, a := range def.RawArgs {
				if a.Name != ps[i].Name {
					roles.Add(sx.A("ORDER-CHANGED"))
				}
			}
			im = sx.H("ok", roles, sx.H("source", sx.S(src)), sx.H("target", sx.S(tgt)), sx.H("err", sx.B(def.ReturnError)),
				sx.H("update", sx.B(def.UpdateTarget)), sx.Strs("ctx", cs), multi)
		}
		mode := map[method.ParamType]string{method.ParamsRequired: "required", method.ParamsOptional: "optional", method.ParamsNone: "none"}[prof.Params]
		req := sx.H("sig", sx.I(len(reqs)),
			sx.H("opts", sx.H("params", sx.A(mode)), sx.H("multi", sx.B(prof.Multi)), sx.H("allowtp", sx.B(prof.AllowTP)), sx.H("update", sx.S(prof.Update)), sx.Strs("localctx", prof.LocalCtx)),
			sx.H("obj", sx.H("accessible", sx.B(accessible)), sx.H("func", sx.B(objKind != "var-nonfunc")), sx.H("typeparams", sx.B(objKind == "generic")), pn, rn))
		reqs = append(reqs, req)
		impl = append(impl, im)
		descr = append(descr, map[string]any{"profile": prof.Name, "object": objKind, "params": ps, "results": rs})
		e.rep.Count(prof.Name + "." + im.Head())
		if len(ps)+len(rs) > 0 {
			e.rep.Nontrivial(req.String())
		}
	}
	for _, prof := range sigProfiles {
		for _, ps := range paramLists {
			for _, rs := range resultLists {
				lookalike := strings.Contains(strings.Join(rs, ","), "errl")
				if e.thorough {
					// thorough: <=4 parameters x <=2 results over the base alphabet; <=3 parameters x <=2 results with the error
					// look-alikes; 3 results with <=2 parameters
					switch {
					case len(rs) == 3 && len(ps) > 2:
						continue
					case lookalike && len(ps) > 3:
						continue
					}
				} else {
					// quick: <=3 parameters x <=2 results over the base alphabet; look-alikes and 3 results with <=2 parameters
					if (len(rs) > maxR || lookalike) && len(ps) > 2 {
						continue
					}
				}
				one(prof, "func", ps, rs)
			}
		}
		// other object kinds on a smaller grid
		for _, kind := range []string{"var-nonfunc", "unexported", "generic"} {
			for _, ps := range paramLists {
				if len(ps) > 2 {
					continue
				}
				for _, rs := range resultLists {
					if len(rs) > 2 {
						continue
					}
					one(prof, kind, ps, rs)
				}
			}
		}
	}
	answers, err := drv.Run(reqs)
	if err != nil {
		return err
	}
	e.rep.Eval(len(reqs))
	e.rep.Exhaustive = true
	for i, a := range answers {
		sortCtx(a)
		if a.String() != impl[i].String() {
			d := descr[i]
			d["implementation"] = impl[i].String()
			d["model"] = a.String()
			d["broken"] = "correspondence C14: Gv.Signature.parse vs method.Parse"
			e.rep.Violation("", d, false)
		}
		if i%20011 == 0 {
			e.rep.Sample(map[string]any{"case": descr[i], "answer": impl[i].String()})
		}
	}
	e.rep.Exhaustive = false
	if err := runConsumers(e); err != nil {
		return err
	}
	return runExtList(e)
}

func sortCtx(a *sx.Node) {
	if a.Head() != "ok" {
		return
	}
	for _, part := range a.Args() {
		if part.Head() == "ctx" {
			args := part.L[1:]
			sort.SliceStable(args, func(i, j int) bool { return args[i].S < args[j].S })
		}
	}
}
