package main

import (
	"fmt"
	"os"
	"path/filepath"
	"regexp"
	"sort"
	"strings"
	"sync"
	"time"

	"github.com/jmattheis/goverter/namer"

	"gvh/internal/drv"
	"gvh/internal/rng"
	"gvh/internal/scratch"
	"gvh/internal/sx"
	"gvh/internal/tygen"
)

func init() { campaigns["C01"] = runC01 }

var namePool = []string{"source", "target", "context", "c", "i", "key", "value", "err", "x", "pInt", "xint", "intList", "mapStringInt", "unnamed", "j", "z", "i2", "key2", "value2", "c2", "source2"}

type apiCase struct {
	ID      int               `json:"id"`
	Kind    string            `json:"kind"`
	Tree    scratch.Tree      `json:"tree"`
	Asserts map[string]string `json:"assertion_files"`
	Rerun   bool              `json:"generated_twice,omitempty"` // goverter is run a second time over the output of the first run
	root    string
}

func deepSlice(depth int, elem string) string { return strings.Repeat("[]", depth) + elem }

// apiCases builds the naming / layout stress projects.
func apiCases(r *rng.R, n int, base string) []*apiCase {
	var out []*apiCase
	pkgNames := []string{"source", "target", "context", "c", "i", "key", "value", "err", "fmt", "errors", "generated", "p", "x", "j", "strings"}
	add := func(kind string, tree scratch.Tree, asserts map[string]string) {
		id := len(out)
		tree["go.mod"] = fmt.Sprintf("module example.org/a%d\n\ngo 1.18\n", id)
		for k, v := range tree {
			tree[k] = strings.ReplaceAll(v, "MODULE", fmt.Sprintf("example.org/a%d", id))
		}
		for k, v := range asserts {
			asserts[k] = strings.ReplaceAll(v, "MODULE", fmt.Sprintf("example.org/a%d", id))
		}
		out = append(out, &apiCase{ID: id, Kind: kind, Tree: tree, Asserts: asserts, root: filepath.Join(base, fmt.Sprintf("a%d", id))})
	}
	for len(out) < n {
		pn := rng.Pick(r, pkgNames)
		format := rng.Pick(r, []string{"struct", "function", "variables"})
		depth := rng.Pick(r, []int{1, 2, 3, 19, 20, 37})
		types := fmt.Sprintf(`package %[1]s

type In struct {
	V    int
	L    %[2]s
	M    map[string]map[string][]int
	P    **int
	rec  *In
	Next *In
	Q    Other
}

type Out struct {
	V    int
	L    %[2]s
	M    map[string]map[string][]int
	P    **int
	Next *Out
	Q    OtherT
}

type Other struct{ A []int }
type OtherT struct{ A []int }
`, pn, deepSlice(depth, "In2"))
		types += "type In2 struct{ K int }\n"
		var conv string
		asserts := map[string]string{}
		switch format {
		case "struct":
			name := rng.Pick(r, []string{"", "Impl", "Converter"})
			line := ""
			impl := "ConvImpl"
			if name != "" {
				line = "// goverter:name " + name + "\n"
				impl = name
			}
			conv = fmt.Sprintf("package %s\n\n// goverter:converter\n// goverter:ignoreMissing\n%stype Conv interface {\n\tConvert(source In) Out\n\tConvertList(source []In) []Out\n\tFromPtr(source *In) *Out\n}\n", pn, line)
			asserts[pn+"/generated/zz_assert.go"] = fmt.Sprintf("//go:build !goverter\n\npackage generated\n\nimport up \"MODULE/%s\"\n\nvar _ up.Conv = &%s{}\n", pn, impl)
		case "function":
			conv = fmt.Sprintf("package %s\n\n// goverter:converter\n// goverter:ignoreMissing\n// goverter:output:format function\ntype Conv interface {\n\tConvert(source In) Out\n\tConvertList(source []In) []Out\n}\n", pn)
			asserts[pn+"/generated/zz_assert.go"] = fmt.Sprintf("//go:build !goverter\n\npackage generated\n\nimport up \"MODULE/%s\"\n\nvar _ func(up.In) up.Out = Convert\nvar _ func([]up.In) []up.Out = ConvertList\n", pn)
		default:
			conv = fmt.Sprintf("package %s\n\n// goverter:variables\n// goverter:ignoreMissing\nvar (\n\tConvert     func(source In) Out\n\tConvertList func(source []In) []Out\n)\n", pn)
			asserts[pn+"/zz_assert.go"] = fmt.Sprintf("//go:build !goverter\n\npackage %s\n\nfunc init() {\n\tif Convert == nil || ConvertList == nil {\n\t\tpanic(\"variable not assigned\")\n\t}\n}\n", pn)
		}
		add("names:"+pn+":"+format+fmt.Sprintf(":depth%d", depth), scratch.Tree{pn + "/types.go": types, pn + "/conv.go": conv}, asserts)
	}
	// cases aimed at the defects seen while reading (each must either compile or be reported as a diagnostic)
	add("float-enum-duplicate-values", scratch.Tree{"p/p.go": "package p\n\ntype A float64\n\nconst (\n\tA1 A = 1.5\n\tA2 A = 1.5\n)\n\ntype B float64\n\nconst (\n\tB1 B = 2.5\n\tB2 B = 2.5\n)\n\n// goverter:converter\n// goverter:enum:unknown @ignore\ntype Conv interface {\n\t// goverter:enum:map A1 B1\n\t// goverter:enum:map A2 B2\n\tConvert(source A) B\n}\n"}, map[string]string{})
	add("unexported-source-field-other-package", scratch.Tree{"q/q.go": "package q\n\ntype In struct {\n\tage int\n\tName string\n}\n",
		"p/p.go": "package p\n\nimport \"MODULE/q\"\n\ntype Out struct {\n\tAge  int\n\tName string\n}\n\n// goverter:converter\ntype Conv interface {\n\t// goverter:map age Age\n\tConvert(source q.In) Out\n}\n"}, map[string]string{})
	add("zero-guard-on-uncomparable-struct", scratch.Tree{"p/p.go": "package p\n\ntype N struct{ L []int }\ntype In struct{ N N }\ntype Out struct{ N N }\n\n// goverter:converter\ntype Conv interface {\n\t// goverter:update target\n\t// goverter:update:ignoreZeroValueField\n\tUpdate(source In, target *Out)\n}\n"}, map[string]string{})
	add("same-named-converters-one-file", scratch.Tree{"a/a.go": "package a\n\ntype In struct{ V int }\ntype Out struct{ V int }\n\n// goverter:converter\n// goverter:output:file ../out/gen.go\ntype Conv interface {\n\tConvert(source In) Out\n}\n",
		"b/b.go": "package b\n\ntype In struct{ V int }\ntype Out struct{ V int }\n\n// goverter:converter\n// goverter:output:file ../out/gen.go\ntype Conv interface {\n\tConvert(source In) Out\n}\n"}, map[string]string{})
	add("submethod-name-equals-explicit-method", scratch.Tree{"p/p.go": "package p\n\ntype In struct{ V int }\ntype Out struct{ V int }\ntype W struct{ X In }\ntype WT struct{ X Out }\n\n// goverter:converter\ntype Conv interface {\n\tConvert(source W) WT\n\t// a declared method whose name is the one goverter would give the generated helper for In -> Out\n\tPInToPOut(source []In) []Out\n}\n"}, map[string]string{})
	add("unexported-enum-member-other-package", scratch.Tree{"p/p.go": "package p\n\ntype Lv int\n\nconst (\n\tLvLow         Lv = 1\n\tLvHigh        Lv = 2\n\tlvDebugHidden Lv = 99\n)\n\ntype Tv int\n\nconst (\n\tTvLow         Tv = 11\n\tTvHigh        Tv = 12\n\tTvDebugHidden Tv = 19\n\tTvUnknown     Tv = 0\n)\n\n// goverter:converter\n// goverter:enum:unknown TvUnknown\ntype Conv interface {\n\t// goverter:enum:transform regex (?i)lv(\\w+) Tv$1\n\tConvert(source Lv) Tv\n}\n"}, map[string]string{})
	add("type-id-collides-with-err", scratch.Tree{"e/e.go": "package e\n\ntype Rr struct{ V int }\ntype rr struct{ V int }\n\ntype In struct{ X rr }\ntype Out struct{ X *rr }\n\nfunc F(s rr) (*rr, error) { return &s, nil }\n\n// goverter:converter\n// goverter:output:file ./gen.go\n// goverter:extend F\ntype Conv interface {\n\tConvert(source In) (Out, error)\n}\n"}, map[string]string{})
	// D29: variadic function types in converted types must be rendered as they are declared (func(rest ...int), not func([]int))
	add("variadic-func-type-rendered", scratch.Tree{"p/p.go": "package p\n\ntype K string\n\n// goverter:converter\n// goverter:skipCopySameType\ntype C interface {\n\tConvert(source map[K]func(rest ...int)) map[string]func(rest ...int)\n}\n"},
		map[string]string{"p/generated/zz_assert.go": "//go:build !goverter\n\npackage generated\n\nimport up \"MODULE/p\"\n\nvar _ up.C = &CImpl{}\n"})
	// D28: every field of an inline struct conversion skipped (ignoreMissing): the range / element variable must still count as used
	add("ignoremissing-skips-every-field-map-value", scratch.Tree{"p/p.go": "package p\n\n// goverter:converter\n// goverter:ignoreMissing\ntype C interface {\n\tConvert(source map[string]struct{ A int }) map[string]struct{ B int }\n}\n"}, map[string]string{})
	add("ignoremissing-skips-every-field-slice-element", scratch.Tree{"p/p.go": "package p\n\n// goverter:converter\n// goverter:ignoreMissing\ntype C interface {\n\tConvert(source []struct{ A int }) []struct{ B int }\n}\n"}, map[string]string{})
	// D26: a helper generated for a recursive type gains an error result / a context argument after another helper was
	// already emitted with a call of its old signature (fixed by 7c4d1f2: callers are rebuilt)
	add("recursive-helper-gains-error-result-late", scratch.Tree{"p/p.go": "package p\n\nimport \"strconv\"\n\ntype Node struct {\n\tNext  *Node\n\tValue string\n}\ntype OutNode struct {\n\tNext  *OutNode\n\tValue int\n}\ntype Outer struct{ N Node }\ntype OuterT struct{ N OutNode }\n\nfunc Atoi(s string) (int, error) { return strconv.Atoi(s) }\n\n// goverter:converter\n// goverter:extend Atoi\ntype C interface {\n\tConvert(source Outer) (OuterT, error)\n}\n"}, map[string]string{})
	// D32: `goverter:map . Field` in an update method with a POINTER source, next to a sibling that already made goverter
	// generate the helper for the whole-source conversion: the pointer itself was passed where the struct is expected
	add("update-pointer-source-whole-source-mapping", scratch.Tree{"p/p.go": "package p\n\ntype Det struct{ Name string }\ntype Wh struct{ Val Det }\ntype S struct {\n\tA   int\n\tVal Det\n}\ntype T struct {\n\tA     int\n\tWhole Wh\n}\n\nfunc Label(s S) string { return s.Val.Name }\n\ntype T2 struct {\n\tA     int\n\tWhole Wh\n\tL     string\n}\n\n// goverter:converter\n// goverter:update:ignoreZeroValueField:struct\ntype C interface {\n\t// goverter:map . Whole\n\tAlpha(source S) T\n\t// goverter:update target\n\t// goverter:map . Whole\n\tUpd(source *S, target *T)\n\t// goverter:update target\n\t// goverter:map . Whole\n\t// goverter:map . L | Label\n\tUpd2(source *S, target *T2)\n}\n"}, map[string]string{})
	// D31: two output files in ONE package whose converters both need the helper for the same nested pair
	add("same-helper-in-two-files-of-one-package", scratch.Tree{"p/p.go": "package p\n\ntype Nest struct{ A int }\ntype NestOut struct{ A int }\ntype In struct{ N Nest }\ntype Out struct{ N NestOut }\n\n// goverter:converter\n// goverter:output:format function\n// goverter:output:file ./a_gen.go\ntype A interface {\n\tConvA(source In) Out\n}\n\n// goverter:converter\n// goverter:output:format function\n// goverter:output:file ./b_gen.go\ntype B interface {\n\tConvB(source In) Out\n}\n"}, map[string]string{})
	// D33: a converter method with a variadic parameter
	add("variadic-converter-method", scratch.Tree{"p/p.go": "package p\n\ntype In struct{ A int }\ntype Out struct{ A int }\n\n// goverter:converter\ntype C interface {\n\tConvert(source ...In) []Out\n}\n"},
		map[string]string{"p/generated/zz_assert.go": "//go:build !goverter\n\npackage generated\n\nimport up \"MODULE/p\"\n\nvar _ up.C = &CImpl{}\n"})
	// a variables block whose output goes to ANOTHER package: the init() there assigns the variables qualified, and a
	// variable used inside another variable's conversion is called qualified too
	add("variables-block-output-in-another-package", scratch.Tree{"ex/conv.go": "package ex\n\n// goverter:variables\n// goverter:output:file ../gen/conv.gen.go\n// goverter:output:package MODULE/gen\nvar (\n\tConvertOrder func(source Order) OrderDTO\n\tConvertItem  func(source Item) ItemDTO\n\t// goverter:update target\n\tUpdateItem func(source Item, target *ItemDTO)\n)\n\ntype Order struct {\n\tID    int\n\tItems []Item\n\tFirst *Item\n}\ntype Item struct{ Name string }\ntype OrderDTO struct {\n\tID    int\n\tItems []ItemDTO\n\tFirst *ItemDTO\n}\ntype ItemDTO struct{ Name string }\n"},
		map[string]string{"use/use.go": "package use\n\nimport (\n\t\"MODULE/ex\"\n\t_ \"MODULE/gen\"\n)\n\nvar _ = ex.ConvertOrder\n"})
	// D33 continued: a variadic CONTEXT parameter passed on, and a method that delegates to an extend function of the same
	// variadic signature
	add("variadic-context-and-delegate", scratch.Tree{"p/p.go": "package p\n\ntype In struct{ A int }\ntype Out struct{ A int }\ntype W struct{ X In }\ntype WT struct{ X Out }\n\n// goverter:context tags\nfunc Tagged(s In, tags ...string) Out { return Out{A: s.A + len(tags)} }\n\nfunc Many(xs ...In) []Out { return nil }\n\n// goverter:converter\n// goverter:extend Tagged\ntype C interface {\n\t// goverter:context tags\n\tConvert(source W, tags ...string) WT\n}\n\n// goverter:converter\n// goverter:extend Many\ntype D interface {\n\tAll(source ...In) []Out\n}\n"},
		map[string]string{"p/generated/zz_assert.go": "//go:build !goverter\n\npackage generated\n\nimport up \"MODULE/p\"\n\nvar _ up.C = &CImpl{}\nvar _ up.D = &DImpl{}\n"})
	// blank fields (`_ T`, padding) cannot be assigned: in same-package output they are accessible like every unexported field
	add("blank-struct-fields", scratch.Tree{"p/p.go": "package p\n\ntype In struct {\n\tA int\n\t_ int\n}\ntype Out struct {\n\tA int\n\t_ int\n}\n\n// goverter:variables\nvar (\n\tConv func(source In) Out\n\t// goverter:update target\n\tUpd func(source In, target *Out)\n)\n"}, map[string]string{})
	// a LOCAL named type over a FOREIGN struct with an unexported field, output in the declaring package: the field belongs
	// to the foreign package (refused unless ignored); the control converter ignores it and must compile
	add("local-named-type-over-foreign-struct", scratch.Tree{"store/store.go": "package store\n\ntype Record struct {\n\tID       int\n\tchecksum string\n}\n",
		"conv/conv.go": "package conv\n\nimport \"MODULE/store\"\n\ntype Row store.Record\ntype In struct {\n\tID       int\n\tchecksum string\n}\n\n// goverter:converter\n// goverter:output:file ./conv.gen.go\n// goverter:output:package MODULE/conv\ntype A interface {\n\tConvert(source In) Row\n}\n"}, map[string]string{})
	add("local-named-type-over-foreign-struct-ignored", scratch.Tree{"store/store.go": "package store\n\ntype Record struct {\n\tID       int\n\tchecksum string\n}\n",
		"conv/conv.go": "package conv\n\nimport \"MODULE/store\"\n\ntype Row store.Record\ntype In struct {\n\tID       int\n\tchecksum string\n}\n\n// goverter:converter\n// goverter:output:file ./conv.gen.go\n// goverter:output:package MODULE/conv\ntype A interface {\n\t// goverter:ignore checksum\n\tConvert(source In) Row\n}\n"}, map[string]string{})
	add("recursive-helper-gains-context-late", scratch.Tree{"p/p.go": "package p\n\ntype V struct{ N int }\ntype W struct{ N int }\ntype S struct {\n\tKid *S2\n\tVal V\n}\ntype S2 struct{ Back *S }\ntype T struct {\n\tKid *T2\n\tVal W\n}\ntype T2 struct{ Back *T }\ntype Outer struct{ X S }\ntype OuterT struct{ X T }\n\n// goverter:context tag\nfunc VToW(v V, tag string) W { return W{N: v.N} }\n\n// goverter:converter\n// goverter:extend VToW\ntype C interface {\n\t// goverter:context tag\n\tConvert(source Outer, tag string) OuterT\n}\n"}, map[string]string{})
	return out
}

var buildClasses = []struct {
	re    *regexp.Regexp
	class string
}{
	{regexp.MustCompile(`duplicate case`), "D5-duplicate-case"},
	// D6 is about READING an unexported field of the SOURCE: the selector starts at `source` (a write to an inaccessible target field is not this class)
	{regexp.MustCompile(`\(?\*?source\)?(\.\w+|\[\w+\])*\.\w+ undefined \((cannot refer to unexported field|type \S+ has no field or method)|source\.age undefined`), "D6-unexported-source-field"},
	{regexp.MustCompile(`cannot compare|struct containing .* cannot be compared|invalid operation: .* != .*\(struct`), "D7-uncomparable-zero-guard"},
	{regexp.MustCompile(`Impl redeclared in this block`), "D4-redeclared"},
	{regexp.MustCompile(`undefined: p\.lvDebugHidden`), "D24-unexported-enum-member"},
	{regexp.MustCompile(`\b(c|i|j|k|l|m|n|o|p|q|r|s|t|u|v|w|x|y|z|source|target|context|key|value)\.[A-Za-z]\w* (is not a type|undefined)`), "D8-import-alias-shadowed"},
}

func runC01(e *env) error {
	e.rep.Rule = "cases = (a) random operation sequences (Name with bases from a pool of the identifiers goverter itself uses, Index, Map, Register) on namer.Namer vs Gv.Namer; (b) projects stressing names and layout: the user's package named like identifiers the generated code uses (source, target, context, c, i, key, value, err, fmt, errors, …), 1-37 nested slice levels (index variables i..z, i2..), double pointers, nested maps, recursive types, unexported fields, the three output formats and custom struct names; the goverter binary is run, then assertion files are added (var _ pkg.Conv = &Impl{}, function signatures, variables non-nil after init) and the whole module is compiled with `go build ./...`; (c) pinned cases for the defect classes seen while reading; (d) the converter families of the other campaigns (custom functions incl. T->T and converted map keys, default constructors over the pointer shapes, update methods, field mappings, enums across packages, source-struct methods) generated in process and compiled as one module; (e) random structural converters including empty structs (distinct named ones pinned), arrays, named-vs-literal pairs, with skipCopySameType / useZeroValueOnPointerInconsistency, generated and compiled. A successful run whose output does not compile or does not implement the declared API is a violation. non-trivial = every case; distinct = project text"
	r := e.r.Fork(1)
	// (a) namer
	nSeq := 3000
	if e.thorough {
		nSeq = 60000
	}
	var reqs, impl []*sx.Node
	for i := 0; i < nSeq; i++ {
		nm := namer.New()
		req := sx.H("namer", sx.I(i))
		want := sx.H("names")
		n := 1 + r.Intn(40)
		for j := 0; j < n; j++ {
			switch k := r.Intn(10); {
			case k < 5:
				b := rng.Pick(r, namePool)
				req.Add(sx.H("name", sx.S(b)))
				want.Add(sx.S(nm.Name(b)))
			case k < 7:
				req.Add(sx.H("index"))
				want.Add(sx.S(nm.Index()))
			case k < 9:
				req.Add(sx.H("map"))
				kk, vv := nm.Map()
				want.Add(sx.H("kv", sx.S(kk), sx.S(vv)))
			default:
				b := rng.Pick(r, namePool)
				req.Add(sx.H("register", sx.S(b)))
				want.Add(sx.B(nm.Register(b)))
			}
		}
		reqs = append(reqs, req)
		impl = append(impl, want)
	}
	answers, err := drv.Run(reqs)
	if err != nil {
		return err
	}
	e.rep.Eval(len(reqs))
	for i, a := range answers {
		e.rep.Nontrivial(reqs[i].String())
		if a.String() != impl[i].String() {
			e.rep.Violation("", map[string]any{"operations": reqs[i].String(), "implementation": impl[i].String(), "model": a.String(),
				"broken": "correspondence C01: Gv.Namer vs namer.Namer"}, false)
		}
	}
	// (b)+(c) projects
	bin := goverterBin(e)
	base := filepath.Join(e.scratch, "c01")
	_ = os.MkdirAll(base, 0o755)
	n := 14
	if e.thorough {
		n = 120 * e.scale
	}
	cases := w10c01AddLayouts(e, r, apiCases(r, n, base), base) // w10_c01.go
	type obs struct {
		res      scratch.Result
		buildOut string
		buildErr error
	}
	out := make([]obs, len(cases))
	var wg sync.WaitGroup
	sem := make(chan struct{}, 8)
	for i, c := range cases {
		wg.Add(1)
		go func(i int, c *apiCase) {
			defer wg.Done()
			sem <- struct{}{}
			defer func() { <-sem }()
			if scratch.Write(c.root, c.Tree) != nil {
				return
			}
			out[i].res = scratch.Run(bin, c.root, []string{"gen", "./..."}, nil, 120*time.Second)
			if c.Rerun && out[i].res.Exit == 0 {
				out[i].res = scratch.Run(bin, c.root, []string{"gen", "./..."}, nil, 120*time.Second)
			}
			if out[i].res.Exit != 0 {
				return
			}
			_ = scratch.Write(c.root, scratch.Tree(c.Asserts))
			out[i].buildOut, out[i].buildErr = scratch.GoBuild(c.root, "./...")
		}(i, c)
	}
	wg.Wait()
	e.rep.Eval(len(cases))
	kinds := map[string]int{}
	for i, c := range cases {
		o := out[i]
		e.rep.Nontrivial(fmt.Sprint(c.Tree))
		switch {
		case o.res.TimedOut || (o.res.Exit != 0 && o.res.Exit != 1):
			e.rep.Violation("", map[string]any{"case": c, "exit": o.res.Exit, "stderr": truncate(o.res.Stderr, 1500), "broken": "C01: goverter crashed"}, false)
		case o.res.Exit == 1:
			kinds["diagnostic"]++ // reporting a diagnostic instead of emitting broken code is fine for C01
		case o.buildErr != nil:
			class := ""
			for _, bc := range buildClasses {
				if bc.re.MatchString(o.buildOut) {
					class = bc.class
					break
				}
			}
			kinds["does-not-compile"]++
			e.rep.Violation(class, map[string]any{"case": c, "compiler_output": scratch.Relativise(c.root, truncate(o.buildOut, 2500)),
				"broken": "C01: goverter reported success but the emitted code does not compile / does not implement the declared API"}, false)
		default:
			kinds["compiles"]++
		}
		if i%5 == 0 {
			e.rep.Sample(map[string]any{"kind": c.Kind, "exit": o.res.Exit, "compiled": o.buildErr == nil && o.res.Exit == 0})
		}
	}
	var ks []string
	for k, v := range kinds {
		ks = append(ks, fmt.Sprintf("%s=%d", k, v))
		for j := 0; j < v; j++ {
			e.rep.Count("project." + k)
		}
	}
	sort.Strings(ks)
	e.rep.Note("projects: %s", strings.Join(ks, " "))
	// (d) every converter family of the other campaigns (custom functions, default constructors, update methods, field
	// mappings, enums, source-struct methods), generated and compiled together with assertion-free registration code
	per := 10
	if e.thorough {
		per = 60
	}
	rf := e.r.Fork(101)
	var fs []*famOut
	for i := 0; i < per; i++ {
		fs = append(fs, famExtend(rf, i), famDefault(rf, i), famUpdate(rf, i), famFields(rf, i), famEnum(rf, i), famMethods(rf, i))
	}
	res, err := runK2(e, "c01fam", []*k2Batch{merge(fs...).batch("families-compile", 0)})
	if err != nil {
		return err
	}
	e.rep.Eval(res.Generated)
	for _, be := range res.BuildErrors {
		class := ""
		for _, bc := range buildClasses {
			if bc.re.MatchString(be) {
				class = bc.class
				break
			}
		}
		e.rep.Violation(class, map[string]any{"compiler_output": truncate(be, 3000),
			"broken": "C01: goverter reported success for every converter of the batch but the emitted code does not compile"}, false)
	}
	e.rep.Note("family converters generated and compiled together: %d", res.Generated)
	// (e) random structural converters INCLUDING empty structs (named and unnamed), arrays and named/literal pairs,
	// generated and compiled only (zero-size types cannot be executed by the address-labelling executor)
	nb, pb := 1, 150
	if e.thorough {
		nb, pb = 2*e.scale, 300
	}
	var sb []*k2Batch
	for b := 0; b < nb; b++ {
		g := tygen.New(e.r.Fork(uint64(5000 + b)))
		g.AllowArray = true
		kb := &k2Batch{Tag: "structural-compile", Convs: map[string]string{}, ValModes: 0}
		rr := e.r.Fork(uint64(6000 + b))
		// pinned: distinct named empty structs, named vs unnamed empty struct, nested
		g.Decls = append(g.Decls, &tygen.Decl{Name: "EmpA", Under: tygen.Raw{Text: "struct{}"}}, &tygen.Decl{Name: "EmpB", Under: tygen.Raw{Text: "struct{}"}},
			&tygen.Decl{Name: "EmpBoxA", Under: tygen.Raw{Text: "struct { E EmpA; P *EmpA; L []EmpA; M map[string]EmpA; U struct{} }"}},
			&tygen.Decl{Name: "EmpBoxB", Under: tygen.Raw{Text: "struct { E EmpB; P *EmpB; L []EmpB; M map[string]EmpB; U struct{} }"}})
		pinned := [][2]string{{"EmpA", "EmpB"}, {"EmpA", "EmpA"}, {"EmpA", "struct{}"}, {"struct{}", "EmpB"}, {"EmpBoxA", "EmpBoxB"}, {"[]EmpA", "[]EmpB"}, {"*EmpA", "*EmpB"}, {"map[EmpA]int", "map[EmpB]int"}}
		for i := 0; i < pb; i++ {
			var s, t string
			if i < len(pinned) {
				s, t = pinned[i][0], pinned[i][1]
			} else {
				st := g.Type(1 + rr.Intn(3))
				tt := g.Mirror(st, tygen.MirrorOpts{PtrFlip: 10, ArrayFlip: 10, Literal: 12}, 0)
				s, t = st.Src(), tt.Src()
			}
			name := fmt.Sprintf("SC%d", i)
			src := "// goverter:converter\n"
			if rr.Chance(25) {
				src += "// goverter:skipCopySameType\n"
			}
			if rr.Chance(25) {
				src += "// goverter:useZeroValueOnPointerInconsistency\n"
			}
			kb.Convs[name] = src + "type " + name + " interface {\n\tConvert(source " + s + ") " + t + "\n}\n\n"
			kb.Order = append(kb.Order, name)
		}
		kb.Types = g.Source()
		sb = append(sb, kb)
	}
	res2, err := runK2(e, "c01str", sb)
	if err != nil {
		return err
	}
	e.rep.Eval(res2.Generated)
	for _, be := range res2.BuildErrors {
		class := ""
		for _, bc := range buildClasses {
			if bc.re.MatchString(be) {
				class = bc.class
				break
			}
		}
		e.rep.Violation(class, map[string]any{"compiler_output": truncate(be, 3000),
			"broken": "C01: goverter reported success for every converter of the batch but the emitted code does not compile"}, false)
	}
	e.rep.Note("structural converters (incl. empty structs) generated and compiled together: %d", res2.Generated)
	return nil
}
