package main

import (
	"fmt"
	"os"
	"path/filepath"
	"sort"
	"strings"
	"sync"
	"time"

	"gvh/internal/drv"
	"gvh/internal/rng"
	"gvh/internal/scratch"
	"gvh/internal/sx"
)

// Evolving histories for C16: the SOURCES change between the runs (not only the types behind an unchanged converter).
// A converter's method set (interface methods / variables of a goverter:variables block) is kept, shrunk, swapped, grown or
// emptied from one state to the next, the types used only by removed methods disappear with them and the fields of the kept
// types are renamed, so the output of the previous run is "outdated against changed types" in every state after the first.
// The output paths never change along a history, hence after the last run the WHOLE tree has to be the tree a clean
// generation of the final sources gives (nothing stale is left), and the files a clean generation creates are the ones
// Gv.Layout.place assigns to the converters of the final sources (every converter owns its output file, whatever it declares).

type evoConv struct {
	Kind    string   `json:"kind"` // struct | function | variables
	Dir     string   `json:"dir"`
	File    string   `json:"file"`
	Name    string   `json:"name"`
	Lines   []string `json:"lines"`
	Methods [][]int  `json:"methods_per_state"` // per state: the type pairs In<k>/Out<k> converted by the methods
}

type evoCase struct {
	ID        int            `json:"id"`
	Module    string         `json:"module"`
	Shape     string         `json:"shape"`
	Flags     []string       `json:"flags"`
	Tags      string         `json:"tags"`
	Constr    string         `json:"constraint"`
	KeepTypes bool           `json:"keep_types"` // the types of removed methods stay declared (the old output is stale, but compiles)
	Convs     []*evoConv     `json:"converters"`
	Trees     []scratch.Tree `json:"states"`
	root      string
}

const evoPairs = 4

func (ec *evoCase) states() int { return len(ec.Convs[0].Methods) }

// tree renders the sources of state s. Every state has the same set of paths.
func (ec *evoCase) tree(s int) scratch.Tree {
	t := scratch.Tree{"go.mod": "module " + ec.Module + "\n\ngo 1.18\n"}
	used := map[string]map[int]bool{}
	for _, c := range ec.Convs {
		if used[c.Dir] == nil {
			used[c.Dir] = map[int]bool{}
		}
		for _, k := range c.Methods[s] {
			used[c.Dir][k] = true
		}
	}
	for d, u := range used {
		var b strings.Builder
		b.WriteString("package " + filepath.Base(d) + "\n")
		for k := 0; k < evoPairs; k++ {
			if !u[k] && !ec.KeepTypes {
				continue
			}
			// the second field is renamed in every state: code generated for an earlier state does not compile against this one
			fmt.Fprintf(&b, "\ntype In%d struct {\n\tV int\n\tF%d string\n}\n\ntype Out%d struct {\n\tV int\n\tF%d string\n}\n", k, s, k, s)
		}
		t[d+"/types.go"] = b.String()
	}
	for _, c := range ec.Convs {
		var b strings.Builder
		b.WriteString("package " + filepath.Base(c.Dir) + "\n\n")
		if c.Kind == "variables" {
			b.WriteString("// goverter:variables\n")
		} else {
			b.WriteString("// goverter:converter\n")
		}
		for _, l := range c.Lines {
			b.WriteString("// goverter:" + l + "\n")
		}
		if c.Kind == "variables" {
			b.WriteString("var (\n")
			for _, k := range c.Methods[s] {
				fmt.Fprintf(&b, "\t%sV%d func(source In%d) Out%d\n", c.Name, k, k, k)
			}
			b.WriteString(")\n")
		} else {
			b.WriteString("type " + c.Name + " interface {\n")
			for _, k := range c.Methods[s] {
				fmt.Fprintf(&b, "\t%sC%d(source In%d) Out%d\n", c.Name, k, k, k)
			}
			b.WriteString("}\n")
		}
		t[c.Dir+"/"+c.File] = b.String()
	}
	return t
}

// evoMethods draws the method sets of one converter over n states.
func evoMethods(r *rng.R, n int, finalEmpty bool) [][]int {
	pick := func(size int) []int {
		set := map[int]bool{}
		for len(set) < size {
			set[r.Intn(evoPairs)] = true
		}
		var ks []int
		for k := range set {
			ks = append(ks, k)
		}
		sort.Ints(ks)
		return ks
	}
	out := make([][]int, n)
	if r.Chance(15) {
		out[0] = []int{} // starts empty and grows
	} else {
		out[0] = pick(1 + r.Intn(2))
	}
	for s := 1; s < n; s++ {
		prev := out[s-1]
		var cur []int
		switch op := r.Intn(5); {
		case op == 0: // keep (the types still change)
			cur = append([]int{}, prev...)
		case op == 1 && len(prev) > 1: // shrink
			cur = append([]int{}, prev[1:]...)
		case op == 1 || op == 2: // empty
			cur = []int{}
		case op == 3: // grow
			set := map[int]bool{r.Intn(evoPairs): true}
			for _, k := range prev {
				set[k] = true
			}
			for k := range set {
				cur = append(cur, k)
			}
			sort.Ints(cur)
		default: // swap for other types
			for k := 0; k < evoPairs && len(cur) < 2; k++ {
				in := false
				for _, p := range prev {
					in = in || p == k
				}
				if !in {
					cur = append(cur, k)
				}
			}
		}
		if cur == nil {
			cur = []int{}
		}
		out[s] = cur
	}
	if finalEmpty {
		out[n-1] = []int{}
		if len(out[n-2]) == 0 {
			out[n-2] = pick(1 + r.Intn(2)) // the run before left a non-empty output behind
		}
	}
	return out
}

var evoShapes = []string{"struct/separate", "struct/same", "struct/shared", "function/separate", "function/same", "function/shared", "variables/default", "variables/file"}

func genEvoCase(r *rng.R, id int, base string) *evoCase {
	flagSets := []struct {
		flags        []string
		tags, constr string
	}{
		{nil, "goverter", "!goverter"},
		{[]string{"-build-tags", "gen1", "-output-constraint", "!gen1"}, "gen1", "!gen1"},
		{[]string{"-build-tags", "gen1,other", "-output-constraint", "!gen1 && !never"}, "gen1,other", "!gen1 && !never"},
	}
	ec := &evoCase{ID: id, Module: fmt.Sprintf("example.org/e%d", id), Shape: evoShapes[id%len(evoShapes)], root: filepath.Join(base, fmt.Sprintf("e%d", id))}
	fs := flagSets[(id/len(evoShapes)+id)%len(flagSets)]
	if r.Chance(30) {
		fs = flagSets[r.Intn(len(flagSets))]
	}
	ec.Flags, ec.Tags, ec.Constr = fs.flags, fs.tags, fs.constr
	ec.KeepTypes = r.Chance(25)
	n := 2 + r.Intn(2)
	// two rounds out of three end with an emptied primary converter, the third is free
	finalEmpty := (id/len(evoShapes))%3 != 2
	kind, layout, _ := strings.Cut(ec.Shape, "/")
	prim := &evoConv{Kind: kind, Dir: "a", File: "conv.go", Name: "ConvA", Methods: evoMethods(r, n, finalEmpty)}
	if kind == "function" {
		prim.Lines = append(prim.Lines, "output:format function")
	}
	ec.Convs = []*evoConv{prim}
	switch layout {
	case "same":
		prim.Lines = append(prim.Lines, "output:file ./gen.go")
	case "shared":
		prim.Lines = append(prim.Lines, "output:file ../out/gen.go")
		other := &evoConv{Kind: rng.Pick(r, []string{"struct", "function"}), Dir: "b", File: "conv.go", Name: "ConvB", Lines: []string{"output:file ../out/gen.go"},
			Methods: evoMethods(r, n, finalEmpty && r.Bool())}
		if other.Kind == "function" {
			other.Lines = append([]string{"output:format function"}, other.Lines...)
		}
		ec.Convs = append(ec.Convs, other)
	case "file":
		prim.Lines = append(prim.Lines, "output:file ./vgen.go")
	}
	if kind != "variables" && r.Bool() {
		// a variables block next to the interface (its default output is a/vars.gen.go)
		ec.Convs = append(ec.Convs, &evoConv{Kind: "variables", Dir: "a", File: "vars.go", Name: "ConvV", Methods: evoMethods(r, n, r.Chance(40))})
	}
	for s := 0; s < n; s++ {
		ec.Trees = append(ec.Trees, ec.tree(s))
	}
	return ec
}

// placeRequest asks the model for the output files of the converters of the final sources, generated in root.
func (ec *evoCase) placeRequest(id int, root string) *sx.Node {
	req := sx.H("place", sx.I(id), sx.H("cwd", sx.S("")), sx.H("procwd", sx.S(root)), sx.Strs("cli", nil))
	ld := sx.H("loaded")
	seen := map[string]bool{}
	for _, c := range ec.Convs {
		if !seen[c.Dir] {
			seen[c.Dir] = true
			ld.Add(sx.H("p", sx.S(ec.Module+"/"+c.Dir), sx.S(filepath.Base(c.Dir))))
		}
	}
	req.Add(ld)
	for _, c := range ec.Convs {
		iface, marker := c.Name, "converter"
		if c.Kind == "variables" {
			iface, marker = "", "variables"
		}
		req.Add(sx.H("conv", sx.H("vars", sx.B(c.Kind == "variables")), sx.H("iface", sx.S(iface)), sx.H("file", sx.S(filepath.Join(root, c.Dir, c.File))),
			sx.H("pkg", sx.S(ec.Module+"/"+c.Dir)), sx.H("pkgname", sx.S(filepath.Base(c.Dir))), sx.H("rxbad"),
			sx.Strs("lines", append([]string{marker}, c.Lines...))))
	}
	return req
}

func c16Evolving(e *env, bin, base string) error {
	e.rep.Rule += "; evolving histories (w10): 2-3 source states over layouts {struct format, output:format function, goverter:variables} x {separate package, own package, shared file, default/explicit variables file} x the flag pairs, the method set of every converter is kept/shrunk/swapped/grown/emptied between the states (an emptied converter is an interface without methods or `var ()`), the types of removed methods disappear and the fields of the kept ones are renamed; goverter runs after every state; checked: every run exits 0, the complete tree after the last run equals the tree of a clean generation of the final sources (no stale output left), the files the clean generation creates are exactly the ones Gv.Layout.place assigns to the final converters, and each starts with Gv.Layout.headerLines"
	r := e.r.Fork(0x1610)
	n := 24
	if e.thorough {
		n = 160 * e.scale
	}
	var cases []*evoCase
	for i := 0; i < n; i++ {
		cases = append(cases, genEvoCase(r, i, base))
	}
	type obs struct {
		runs         []scratch.Result
		clean, hist  map[string]scratch.Entry
		cleanCreated []string
		heads        map[string][]string // first lines of the files the clean run created
		err          error
	}
	out := make([]obs, len(cases))
	var wg sync.WaitGroup
	sem := make(chan struct{}, 10)
	for i, ec := range cases {
		wg.Add(1)
		go func(i int, ec *evoCase) {
			defer wg.Done()
			sem <- struct{}{}
			defer func() { <-sem }()
			o := &out[i]
			args := append(append([]string{"gen"}, ec.Flags...), "./...")
			last := ec.Trees[len(ec.Trees)-1]
			cleanRoot := ec.root + "_clean"
			if o.err = scratch.Write(cleanRoot, last); o.err != nil {
				return
			}
			b0, _ := scratch.Snapshot(cleanRoot)
			if res := scratch.Run(bin, cleanRoot, args, nil, 120*time.Second); res.Exit != 0 {
				o.err = fmt.Errorf("clean-tree run failed (evolving case %d): %s", ec.ID, res.Stderr)
				return
			}
			o.clean, _ = scratch.Snapshot(cleanRoot)
			o.heads = map[string][]string{}
			for p, en := range o.clean {
				if _, ok := b0[p]; ok || en.Dir {
					continue
				}
				o.cleanCreated = append(o.cleanCreated, p)
				b, _ := os.ReadFile(filepath.Join(cleanRoot, p))
				lines := strings.Split(string(b), "\n")
				if len(lines) > 3 {
					lines = lines[:3]
				}
				o.heads[p] = lines
			}
			sort.Strings(o.cleanCreated)
			for _, t := range ec.Trees {
				if o.err = scratch.Write(ec.root, t); o.err != nil {
					return
				}
				res := scratch.Run(bin, ec.root, args, nil, 120*time.Second)
				o.runs = append(o.runs, res)
				if res.Exit != 0 {
					break
				}
			}
			o.hist, _ = scratch.Snapshot(ec.root)
		}(i, ec)
	}
	wg.Wait()
	e.rep.Eval(len(cases))
	var reqs []*sx.Node
	for i, ec := range cases {
		if out[i].err != nil {
			return out[i].err
		}
		reqs = append(reqs, ec.placeRequest(2*i, ec.root+"_clean"), sx.H("misc", sx.I(2*i+1), sx.A("header"), sx.S(ec.Constr)))
	}
	answers, err := drv.Run(reqs)
	if err != nil {
		return err
	}
	e.rep.Eval(len(reqs))
	for i, ec := range cases {
		o := out[i]
		place, header := answers[2*i], answers[2*i+1]
		final := ""
		for _, c := range ec.Convs {
			final += fmt.Sprintf("%s:%d>%d ", c.Kind, len(c.Methods[len(c.Methods)-2]), len(c.Methods[len(c.Methods)-1]))
		}
		e.rep.Count("history.evolving." + ec.Shape)
		e.rep.Nontrivial(fmt.Sprintf("evolving|%s|%v|%s", ec.Shape, ec.Flags, final))
		fail := func(why string, extra map[string]any) {
			last := o.runs[len(o.runs)-1]
			doc := map[string]any{"case": ec, "why": why, "run": len(o.runs) - 1, "exit": last.Exit, "stderr": scratch.Relativise(ec.root, truncate(last.Stderr, 1500)),
				"model": scratch.Relativise(ec.root+"_clean", place.String()), "clean_tree_outputs": o.cleanCreated, "broken": "C16: regeneration over the outputs of an earlier state of the sources"}
			for k, v := range extra {
				doc[k] = v
			}
			e.rep.Violation("", doc, false)
		}
		if last := o.runs[len(o.runs)-1]; last.Exit != 0 {
			if len(o.runs) == 1 {
				return fmt.Errorf("first run failed (evolving case %d): %s", ec.ID, last.Stderr)
			}
			fail("regeneration failed although all compile errors are confined to the outputs of the previous run, which the output constraint excludes", nil)
			continue
		}
		// (1) the clean generation creates the files of the model
		if place.Head() != "ok" {
			fail("the model does not place the converters of the final sources, the clean generation succeeded", nil)
			continue
		}
		want := map[string]bool{}
		for _, f := range place.Args() {
			rel, err := filepath.Rel(ec.root+"_clean", f.L[1].S)
			if err != nil {
				rel = f.L[1].S
			}
			want[filepath.ToSlash(rel)] = true
		}
		for _, p := range o.cleanCreated {
			if !want[p] {
				fail("the clean generation created "+p+", which the model assigns to no converter", nil)
			}
			delete(want, p)
			hl := header.Args()
			got := o.heads[p]
			okHead := len(got) > len(hl) && got[len(hl)] == ""
			for j := range hl {
				okHead = okHead && j < len(got) && got[j] == hl[j].S
			}
			if !okHead {
				fail("output "+p+" does not start with the header lines of the model followed by a blank line", map[string]any{"first_lines": got, "model_header": header.String()})
			}
		}
		for p := range want {
			fail("the model assigns "+p+" to a converter of the final sources, the clean generation did not create it", nil)
		}
		// (2) nothing of the earlier states survives: the history ends in the clean tree
		created, changed, removed := scratch.Diff(o.clean, o.hist)
		if len(created)+len(changed)+len(removed) > 0 {
			extra := map[string]any{"only_after_history": created, "differing": changed, "only_in_clean_tree": removed}
			for _, p := range append(append([]string{}, created...), changed...) {
				if b, err := os.ReadFile(filepath.Join(ec.root, p)); err == nil && !o.hist[p].Dir {
					extra["content_after_history"] = map[string]string{p: truncate(string(b), 1200)}
					break
				}
			}
			fail("the tree after the last run of the history differs from the clean generation of the same sources: output of an earlier state was not regenerated", extra)
		}
		if i%8 == 3 {
			e.rep.Sample(map[string]any{"evolving": ec.Shape, "flags": ec.Flags, "converters": ec.Convs, "outputs": o.cleanCreated})
		}
	}
	return nil
}
