package main

import (
	"fmt"
	"go/types"
	"os"
	"path/filepath"
	"sort"
	"strconv"
	"strings"
	"sync"

	"gvh/internal/drv"
	"gvh/internal/gvx"
	"gvh/internal/k2"
	"gvh/internal/rng"
	"gvh/internal/scratch"
	"gvh/internal/sx"
)

// k2Batch is one scratch package with many converters that is generated, compiled and executed.
type k2Batch struct {
	Tag         string
	Types       string            // Go source of the type declarations (without package clause)
	Convs       map[string]string // converter name -> source text
	Order       []string
	Extra       string // further package-level code (custom functions)
	Global      []string
	FailOn      [][2]string // (function, payload) pairs that make fallible custom functions fail
	ValModes    int         // number of values per method
	Share       int
	Race        bool
	Spec        string // "structural": ask the driver to compare with Gv.Spec.specMap
	Pkgs        map[string]string
	TypeImports []string
	ConvAnchors []string
	// values depend on (converter name without a trailing On/Off, method name, value index) only: the two converters of a pair get the same arguments
	ValuesByMethodName bool
}

type k2Call struct {
	Batch     string   `json:"batch"`
	Converter string   `json:"converter"`
	Source    string   `json:"converter_source"`
	Method    string   `json:"method"`
	Values    []string `json:"arguments"`
	Impl      string   `json:"implementation"`
	Model     string   `json:"model"`
	SpecDiff  string   `json:"specification,omitempty"`
	// the model's first answer, when another iteration order of the argument's maps gave the implementation's answer
	ModelFirst string `json:"model_first_order,omitempty"`
	MapOrder   int    `json:"map_order_variant,omitempty"`
	node       *sx.Node
	oc         *gvx.ConvOutcome
}

type k2Result struct {
	Calls       []*k2Call
	Generated   int
	Unsupported int
	BuildErrors []string
	Races       []string
	GenOutcomes map[string]int
	GenErrors   []string
	GenMismatch []map[string]any // generation outcome differs between implementation and model
	GenCompared int
	// converters whose whole plan passes PlanCheck.checkProg (the hypothesis of the composite theorem of C02)
	InFragment, FragmentAsked int
	InFragmentU, PathsOK      int // plans passing PlanCheck.checkProgU / PathCheck.pathsOK (same denominator)
	CustomsFirst, InFragmentS int // … CustomCheck.customsFirst / PlanCheckS.checkProgS
	HasShare                  int // … with at least one skipCopySameType sharing position
	Descends                  int // … whose same-value call structure has a ranking (Safety.callsDescend)
	// failing calls on which implementation and model chose different entries of a map (Go's iteration order is unspecified):
	// resolved by re-running the model on the other iteration orders
	MapOrderResolved, MapOrderTried int
	// plan-level tie: the term read back from the emitted code of every generated method against the term of the model's plan
	SymEqual, SymUnliftable int
	// settings tie: the Common every method ends up with (command line, converter and method lines through the real
	// configuration stage) against Gv.Settings.resolve on the same raw lines
	SettingsCompared, SettingsOutside int
	SettingsDiffs                     []map[string]any
	SymDiffs                []map[string]any
	SymUnliftableSamples    []string
}

// runK2 generates, compiles and executes the batches; for every call it returns the implementation's and the model's answer.
func runK2(e *env, name string, batches []*k2Batch) (*k2Result, error) {
	base := filepath.Join(e.scratch, name)
	_ = os.MkdirAll(base, 0o755)
	res := &k2Result{GenOutcomes: map[string]int{}}
	var mu sync.Mutex
	var wg sync.WaitGroup
	sem := make(chan struct{}, 6)
	var firstErr error
	for bi, kb := range batches {
		wg.Add(1)
		go func(bi int, kb *k2Batch) {
			defer wg.Done()
			sem <- struct{}{}
			defer func() { <-sem }()
			fail := func(err error) {
				mu.Lock()
				if firstErr == nil {
					firstErr = err
				}
				mu.Unlock()
			}
			module := fmt.Sprintf("example.org/%s%d", strings.ToLower(name), bi)
			root := filepath.Join(base, fmt.Sprintf("b%d", bi))
			_ = os.RemoveAll(root) // an earlier campaign stage of the same property may have used the directory
			var convs strings.Builder
			for _, n := range kb.Order {
				convs.WriteString(strings.ReplaceAll(kb.Convs[n], "MODULE", module))
			}
			imports := ""
			if strings.Contains(kb.Extra, "rt.") {
				imports = "import \"" + module + "/rt\"\n\n"
			}
			timports := ""
			if len(kb.TypeImports) > 0 {
				timports = "import (\n\t" + strings.ReplaceAll(strings.Join(kb.TypeImports, "\n\t"), "MODULE", module) + "\n)\n\n"
			}
			tree := scratch.Tree{"go.mod": "module " + module + "\n\ngo 1.18\n",
				"p/types.go":  "package p\n\n" + timports + "var VerifAnchor = 0\n\n" + kb.Types,
				"p/conv.go":   "package p\n\n" + convImports(timports, kb.ConvAnchors) + convs.String(),
				"p/custom.go": "package p\n\n" + imports + kb.Extra}
			for k, v := range kb.Pkgs {
				tree[k] = strings.ReplaceAll(v, "MODULE", module)
			}
			for k, v := range k2.SupportFiles(module) {
				tree[k] = v
			}
			if err := scratch.Write(root, tree); err != nil {
				fail(err)
				return
			}
			b := gvx.RunBatch(root, gvx.Options{Patterns: []string{"./p"}, Global: kb.Global, Constraint: "!goverter"})
			if b.DocsErr != nil {
				fail(fmt.Errorf("%s batch %d does not load: %s", name, bi, truncate(b.DocsErr.Error(), 1500)))
				return
			}
			ex, err := k2.Prepare(root, module, module+"/p", b, kb.Race)
			if err != nil {
				fail(err)
				return
			}
			mu.Lock()
			for _, oc := range b.Outcomes {
				res.GenOutcomes[oc.Stage]++
				if oc.Stage != "ok" && len(res.GenErrors) < 12 {
					res.GenErrors = append(res.GenErrors, oc.Stage+": "+gvx.ClassifyGenErr(oc.Err)+" … "+lastN(oc.Err, 260))
				}
			}
			if ex.BuildErr != "" {
				res.BuildErrors = append(res.BuildErrors, fmt.Sprintf("batch %s#%d: %s", kb.Tag, bi, truncate(ex.BuildErr, 3000)))
				mu.Unlock()
				return
			}
			mu.Unlock()
			// calls
			r := e.r.Fork(uint64(1000 + bi))
			var lines []string
			var calls []*k2Call
			var reqs []*sx.Node
			var reqCalls [][]*k2Call
			var reqSrc []string
			failNode := sx.H("failon")
			for _, f := range kb.FailOn {
				failNode.Add(sx.H("f", sx.S(f[0]), sx.S(f[1])))
			}
			lines = append(lines, failNode.String())
			// the settings every method was generated under: the implementation's configuration stage against the model's
			// (the generator campaigns below take the RESOLVED settings from the implementation, so a change in how lines of
			// the three levels combine would otherwise be invisible to them)
			{
				var sreqs []*sx.Node
				var simpl []string
				var sdescr []map[string]any
				var sfields []string // per-field settings (w10_c10.go)
				for _, oc := range b.Outcomes {
					if oc.Conv == nil || (oc.Stage != "ok" && oc.Stage != "generate") {
						continue
					}
					vars := oc.Raw.InterfaceName == ""
					convLines := append([]string{}, oc.Raw.Converter.Lines...)
					for _, m := range oc.Conv.Methods {
						sc := &settingsCase{Vars: vars, CLI: kb.Global, Conv: convLines, Meth: oc.Raw.Methods[m.Name].Lines, LoaderOK: true}
						req := sx.H("resolve", sx.I(len(sreqs)), sx.H("vars", sx.B(vars)), sx.H("iface", sx.S(oc.Raw.InterfaceName)), sx.H("cwd", sx.S(filepath.Join(root, "p"))),
							sx.H("procwd", sx.S(root)), sx.H("pkg", sx.S(module+"/p")), sx.H("pkgname", sx.S("p")), sx.H("varfile", sx.S("conv.gen.go")),
							sx.Strs("rxbad", badRegexes(sc)), sx.Strs("cli", sc.CLI), sx.Strs("conv", sc.Conv), sx.Strs("meth", sc.Meth), sx.H("loaderok", sx.B(true)))
						sreqs = append(sreqs, req)
						simpl = append(simpl, commonToSx(&m.Common).String())
						sfields = append(sfields, implFieldSettings(m))
						sdescr = append(sdescr, map[string]any{"case": sc, "converter": oc.Raw.InterfaceName, "method": m.Name, "batch": kb.Tag})
					}
				}
				sans, err := drv.Run(sreqs)
				if err != nil {
					fail(err)
					return
				}
				mu.Lock()
				for i, ans := range sans {
					if ans.Head() != "ok" || len(ans.L) != 3 || len(ans.L[2].L) < 2 {
						res.SettingsOutside++ // a line the settings model does not read (reported as a count, never as a difference)
						continue
					}
					res.SettingsCompared++
					fieldSettingsTie(res, sdescr[i], sfields[i], ans)
					if mc := ans.L[2].L[1].String(); mc != simpl[i] {
						d := sdescr[i]
						d["implementation"], d["model"] = simpl[i], mc
						res.SettingsDiffs = append(res.SettingsDiffs, d)
					}
				}
				mu.Unlock()
			}
			// generation-stage diagnostics are compared with the model as well
			var greqs []*sx.Node
			var gocs []*gvx.ConvOutcome
			for _, oc := range b.Outcomes {
				if oc.Stage == "generate" && oc.Conv != nil {
					if req, unsupported := gvx.GenRequest(0, oc.Conv); len(unsupported) == 0 {
						greqs = append(greqs, req)
						gocs = append(gocs, oc)
					}
				}
			}
			if gans, err := drv.Run(greqs); err == nil {
				mu.Lock()
				for i, a := range gans {
					res.GenCompared++
					want := "(err " + gvx.ClassifyGenErr(gocs[i].Err) + ")"
					if a.String() != want && !strings.HasPrefix(a.String(), "(err unsupported") {
						res.GenMismatch = append(res.GenMismatch, map[string]any{"converter": kb.Convs[gocs[i].Raw.InterfaceName], "implementation": want,
							"model": truncate(a.String(), 300), "impl_error": lastN(gocs[i].Err, 500)})
					}
				}
				mu.Unlock()
			} else {
				fail(err)
				return
			}
			for _, oc := range b.Outcomes {
				if oc.Stage != "ok" {
					continue
				}
				req, unsupported := gvx.GenRequest(0, oc.Conv)
				if len(unsupported) > 0 {
					mu.Lock()
					res.Unsupported++
					mu.Unlock()
					continue
				}
				req.L[0] = sx.A("eval")
				gvx.AddLifted(req, oc)
				callsNode := sx.H("calls")
				var mine []*k2Call
				for _, m := range oc.Conv.Methods {
					key := k2.ConvKey(oc) + "." + m.Name
					if !ex.Methods[key] {
						continue
					}
					// batches with fallible functions get three more values per method with exactly one poisoned leaf each
					extra := 0
					if len(kb.FailOn) > 0 {
						extra = 3
					}
					for vi := 0; vi < kb.ValModes+extra; vi++ {
						vg := &k2.ValGen{R: r.Fork(uint64(vi)), Mode: vi, Share: kb.Share}
						if vi >= kb.ValModes {
							vg.Mode, vg.Single = 5, true
						}
						if kb.ValuesByMethodName {
							h := uint64(14695981039346656037)
							inst := strings.TrimSuffix(strings.TrimSuffix(k2.ConvKey(oc), "On"), "Off")
							for _, ch := range inst + "." + m.Name {
								h = (h ^ uint64(ch)) * 1099511628211
							}
							vg.R = rng.New(h ^ uint64(vi)*0x9E3779B97F4A7C15 ^ e.seed)
						}
						var args []*sx.Node
						var argStrs []string
						for _, a := range m.RawArgs {
							if string(a.Use) == "target" {
								vg.ForgetCells() // the instance to update is the caller's own: it never aliases the source
							}
							if string(a.Use) == "target" && vg.Mode == 0 {
								vg.Mode = 1 // the update target instance exists (a nil target is the caller's error)
							}
							v := vg.Value(a.Type.T)
							if string(a.Use) == "target" && v.String() == "nil" {
								vg.Mode = 1
								v = vg.Value(a.Type.T)
							}
							vg.Mode = vi
							if vg.Single {
								vg.Mode = 5
							}
							if string(a.Use) == "target" {
								vg.ForgetCells()
							}
							args = append(args, v)
						}
						if vg.Single {
							vg.PoisonOne(vg.R.Intn(1 << 20))
						}
						for _, v := range args {
							argStrs = append(argStrs, v.String())
						}
						lines = append(lines, sx.H("call", append([]*sx.Node{sx.S(key)}, args...)...).String())
						callsNode.Add(sx.H("call", append([]*sx.Node{sx.S(m.Name)}, args...)...))
						kc := &k2Call{Batch: kb.Tag, Converter: k2.ConvKey(oc), Source: kb.Convs[oc.Raw.InterfaceName], Method: m.Name, Values: argStrs,
							node: sx.H("call", append([]*sx.Node{sx.S(m.Name)}, args...)...), oc: oc}
						calls = append(calls, kc)
						mine = append(mine, kc)
					}
				}
				req.Add(failNode, callsNode)
				if kb.Spec != "" {
					req.Add(sx.H("spec", sx.A(kb.Spec)))
				}
				reqs = append(reqs, req)
				reqCalls = append(reqCalls, mine)
				reqSrc = append(reqSrc, kb.Convs[oc.Raw.InterfaceName])
			}
			answers, err := ex.Run(lines)
			if err != nil {
				if strings.Contains(err.Error(), "DATA RACE") {
					mu.Lock()
					res.Races = append(res.Races, fmt.Sprintf("batch %s#%d: %v", kb.Tag, bi, err))
					mu.Unlock()
					return
				}
				fail(fmt.Errorf("%s batch %d: %v", name, bi, err))
				return
			}
			for i, c := range calls {
				c.Impl = answers[i+1].String()
			}
			mans, err := drv.Run(reqs)
			if err != nil {
				fail(err)
				return
			}
			for i, a := range mans {
				if a.Head() != "ok" {
					for _, c := range reqCalls[i] {
						c.Model = a.String()
					}
					continue
				}
				if sr := gvx.SymOf(a); sr != nil {
					mu.Lock()
					res.SymEqual += sr.Equal
					res.SymUnliftable += len(sr.Unliftable)
					for _, d := range sr.Diffs {
						src := reqSrc[i]
						res.SymDiffs = append(res.SymDiffs, map[string]any{"batch": kb.Tag, "converter_source": src, "method": d.Method,
							"model_term": d.Model, "emitted_code_term": d.Impl})
					}
					if len(sr.Unliftable) > 0 && len(res.SymUnliftableSamples) < 5 {
						res.SymUnliftableSamples = append(res.SymUnliftableSamples, sr.Unliftable[0])
					}
					mu.Unlock()
				}
				for j, rnode := range a.Args() {
					if rnode.Head() == "sym" {
						continue
					}
					if rnode.Head() == "fragment" {
						mu.Lock()
						res.FragmentAsked++
						if len(rnode.L) >= 2 && rnode.L[1].S == "true" {
							res.InFragment++
						}
						if len(rnode.L) >= 4 {
							if rnode.L[2].S == "true" {
								res.InFragmentU++
							}
							if rnode.L[3].S == "true" {
								res.PathsOK++
							}
						}
						if len(rnode.L) >= 7 {
							if rnode.L[4].S == "true" {
								res.CustomsFirst++
							}
							if rnode.L[5].S == "true" {
								res.InFragmentS++
							}
							if rnode.L[6].S == "true" {
								res.HasShare++
							}
						}
						if len(rnode.L) >= 8 && rnode.L[7].S == "true" {
							res.Descends++
						}
						mu.Unlock()
						continue
					}
					if j < len(reqCalls[i]) && len(rnode.L) >= 2 {
						reqCalls[i][j].Model = rnode.L[1].String()
						if len(rnode.L) == 3 {
							reqCalls[i][j].SpecDiff = rnode.L[2].String()
						}
					}
				}
			}
			if err := resolveMapOrder(res, &mu, calls, failNode); err != nil {
				fail(err)
				return
			}
			mu.Lock()
			res.Calls = append(res.Calls, calls...)
			res.Generated += len(reqs)
			mu.Unlock()
		}(bi, kb)
	}
	wg.Wait()
	if firstErr != nil {
		return nil, firstErr
	}
	// the families and type generators are written to stay inside the modelled fragment: a batch run in which a quarter of the
	// converters is skipped as unsupported is a collapse of coverage (it happened silently once: struct tags), not a pass
	if tot := res.Generated + res.Unsupported; tot >= 8 && res.Unsupported*4 > tot {
		return nil, fmt.Errorf("%s: %d of %d generated converters are outside the modelled fragment (translator reports unsupported constructs): coverage collapse", name, res.Unsupported, tot)
	}
	if res.MapOrderTried > 0 {
		e.rep.Note("%s: %d failing calls where implementation and model first disagreed and an argument holds a map with several entries (Go's iteration order is unspecified): re-run on the other iteration orders in the model, %d agree under one of them, the others are reported", name, res.MapOrderTried, res.MapOrderResolved)
	}
	symReport(e, e.prop+" ("+name+")", res.SymEqual, res.SymUnliftable, res.SymDiffs, res.SymUnliftableSamples)
	for _, d := range res.SettingsDiffs {
		if d["broken"] != nil {
			e.rep.Violation("", d, false)
			continue
		}
		d["broken"] = "correspondence " + e.prop + " (settings of a generated method): the Common resolved by the implementation's configuration stage from the command line, converter and method lines differs from Gv.Settings.resolve on the same lines"
		e.rep.Violation("", d, false)
	}
	if res.SettingsCompared+res.SettingsOutside > 0 {
		e.rep.Eval(res.SettingsCompared)
		for i := 0; i < res.SettingsCompared; i++ {
			e.rep.Count("settings-tie.compared")
		}
		e.rep.Note("%s: settings tie: the resolved settings of %d generated methods equal Gv.Settings.resolve on their raw lines, %d differ, %d carry a line the settings model does not read (not compared)",
			name, res.SettingsCompared-len(res.SettingsDiffs), len(res.SettingsDiffs), res.SettingsOutside)
	}
	sort.SliceStable(res.Calls, func(i, j int) bool {
		return res.Calls[i].Converter+res.Calls[i].Batch < res.Calls[j].Converter+res.Calls[j].Batch
	})
	return res, nil
}

// resolveMapOrder: Go iterates maps in an unspecified order, so when several entries of a map make a conversion fail (or
// panic), the failure a call reports depends on the order.  For every call on which implementation and model disagree, one of
// them did not succeed and an argument holds a map, the model is asked again for the other iteration orders (rotations of
// every map, enumerated in mixed radix); the implementation's answer is accepted when one order produces it.
func resolveMapOrder(res *k2Result, mu *sync.Mutex, calls []*k2Call, failNode *sx.Node) error {
	const maxVariants = 512
	for _, c := range calls {
		if c.Impl == c.Model || c.Model == "" || c.node == nil || !strings.Contains(c.node.String(), "(mp ") {
			continue
		}
		if strings.HasPrefix(c.Impl, "(ok") && strings.HasPrefix(c.Model, "(ok") {
			continue
		}
		if !strings.HasPrefix(c.Model, "(ok") && !strings.HasPrefix(c.Model, "(err") && !strings.HasPrefix(c.Model, "(panic") {
			continue
		}
		mu.Lock()
		res.MapOrderTried++
		mu.Unlock()
		variants := 2
		for k := 1; k < variants && k < maxVariants; {
			var reqs []*sx.Node
			hi := k + 64
			for ; k < hi && k < variants && k < maxVariants; k++ {
				req, _ := gvx.GenRequest(0, c.oc.Conv)
				req.L[0] = sx.A("eval")
				req.Add(failNode, sx.H("calls", c.node), sx.H("maprot", sx.I(k)))
				reqs = append(reqs, req)
			}
			ans, err := drv.Run(reqs)
			if err != nil {
				return err
			}
			found := false
			for i, a := range ans {
				if a.Head() != "ok" || len(a.Args()) == 0 || len(a.Args()[0].L) < 3 {
					continue
				}
				r := a.Args()[0]
				if n, err := strconv.Atoi(r.L[2].L[1].S); err == nil && n > variants {
					variants = n
				}
				if r.L[1].String() == c.Impl {
					c.ModelFirst, c.Model, c.MapOrder = c.Model, c.Impl, k-len(ans)+i
					found = true
					break
				}
			}
			if found {
				mu.Lock()
				res.MapOrderResolved++
				mu.Unlock()
				break
			}
		}
	}
	return nil
}

var _ = types.Unalias
var _ = rng.New

func lastN(s string, n int) string {
	if len(s) <= n {
		return s
	}
	return s[len(s)-n:]
}

// convImports: the import block of p/types.go repeated for p/conv.go, with one use per import.
func convImports(importBlock string, anchors []string) string {
	if importBlock == "" || len(anchors) == 0 {
		return ""
	}
	return importBlock + strings.Join(anchors, "\n") + "\n\n"
}
