package main

import (
	"fmt"
	"os"
	"path/filepath"
	"strings"
	"sync"
	"time"

	"github.com/jmattheis/goverter/cli"

	"gvh/internal/drv"
	"gvh/internal/proj"
	"gvh/internal/rng"
	"gvh/internal/scratch"
	"gvh/internal/sx"
)

func init() { campaigns["C17"] = runC17 }

var argvPool = []string{"gen", "help", "version", "-h", "--help", "-help", "-h=1", "-g", "-global", "--g", "-g=skipCopySameType", "-global=x y",
	"-build-tags", "-build-tags=", "-build-tags=a,b", "-output-constraint", "-output-constraint=", "--output-constraint=!x", "-cwd", "-cwd=/w",
	"--", "-", "--x", "---x", "-=", "-=v", "./...", "pattern", "-unknown", "ignoreMissing no", "", "gen", "gen"}

func implCli(args []string) *sx.Node {
	cmd, err := cli.Parse(args)
	if err != nil {
		why := "flag"
		msg := err.Error()
		switch {
		case strings.HasPrefix(msg, "Error: invalid args"):
			why = "invalid args"
		case strings.HasPrefix(msg, "Error: missing command"):
			why = "missing command"
		case strings.HasPrefix(msg, "Error: missing PATTERN"):
			why = "missing PATTERN"
		case strings.HasPrefix(msg, "Error: unknown command"):
			why = "unknown command"
		}
		return sx.H("usage", sx.S(why))
	}
	switch c := cmd.(type) {
	case *cli.Help:
		return sx.H("help")
	case *cli.Version:
		return sx.H("version")
	case *cli.Generate:
		return sx.H("gen", sx.Strs("patterns", c.Config.PackagePatterns), sx.Strs("global", c.Config.Global.Lines),
			sx.H("tags", sx.S(c.Config.BuildTags)), sx.H("constraint", sx.S(c.Config.OutputBuildConstraint)), sx.H("cwd", sx.S(c.Config.WorkingDir)))
	}
	return sx.H("unknown")
}

type runCase struct {
	ID      int           `json:"id"`
	Project *proj.Project `json:"project"`
	Args    []string      `json:"args"`
	Prior   string        `json:"prior"` // "", "generated": a successful run of the fault-free variant happened before
	root    string
}

func runC17(e *env) error {
	e.rep.Rule = "cases = (a) argument vectors: every vector of 1-3 tokens and seeded longer ones over a pool of commands, flags (defined, undefined, -h forms, =value forms, missing values, --), through cli.Parse in process and, for a sample, the goverter binary (exit status, stdout/stderr) vs Gv.Cli.parse/run; (b) runs of the binary on scratch modules with 1-4 converters in 1-2 packages where any subset is faulty at the directive, method-directive, signature, conversion, marker or compile stage, at every position, with and without pre-existing output files of an earlier successful run: exit status, stderr, tree snapshot before/after vs Gv.Cli.run. non-trivial = at least one flag, or at least one faulty converter; distinct = canonical case"
	bin := goverterBin(e)
	r := e.r.Fork(17)

	// (a) argv through cli.Parse
	var argvs [][]string
	for _, a := range argvPool {
		argvs = append(argvs, []string{"goverter", a})
		for _, b := range argvPool {
			argvs = append(argvs, []string{"goverter", a, b})
		}
	}
	nRand := 4000
	if e.thorough {
		nRand = 120000
		for _, a := range argvPool {
			for _, b := range argvPool {
				for _, c := range argvPool {
					argvs = append(argvs, []string{"goverter", a, b, c})
				}
			}
		}
	}
	argvs = append(argvs, nil, []string{"goverter"})
	for i := 0; i < nRand; i++ {
		n := 2 + r.Intn(6)
		av := []string{"goverter"}
		if r.Chance(70) {
			av = append(av, "gen")
		}
		for j := 0; j < n; j++ {
			av = append(av, rng.Pick(r, argvPool))
		}
		argvs = append(argvs, av)
	}
	var reqs, impl []*sx.Node
	for i, av := range argvs {
		reqs = append(reqs, sx.H("cli", append([]*sx.Node{sx.I(i)}, strNodes(av)...)...))
		impl = append(impl, implCli(av))
	}
	answers, err := drv.Run(reqs)
	if err != nil {
		return err
	}
	e.rep.Eval(len(reqs))
	for i, a := range answers {
		e.rep.Count("argv." + impl[i].Head())
		if len(argvs[i]) > 2 {
			e.rep.Nontrivial(reqs[i].String())
		}
		if a.String() != impl[i].String() {
			e.rep.Violation("", map[string]any{"argv": argvs[i], "implementation": impl[i].String(), "model": a.String(),
				"broken": "correspondence C17: Gv.Cli.parse vs cli.Parse"}, false)
		}
	}

	// (a') a sample of argument vectors through the binary: exit status and streams
	base := filepath.Join(e.scratch, "c17")
	if err := os.MkdirAll(base, 0o755); err != nil {
		return err
	}
	nBin := 40
	if e.thorough {
		nBin = 400
	}
	type binObs struct {
		av  []string
		res scratch.Result
	}
	var sample []binObs
	for i := 0; i < len(argvs) && len(sample) < nBin; i += 1 + len(argvs)/nBin {
		if impl[i].Head() == "gen" || len(argvs[i]) == 0 {
			continue
		}
		sample = append(sample, binObs{av: argvs[i]})
	}
	var wg sync.WaitGroup
	sem := make(chan struct{}, 12)
	for i := range sample {
		wg.Add(1)
		go func(i int) {
			defer wg.Done()
			sem <- struct{}{}
			defer func() { <-sem }()
			sample[i].res = scratch.Run(bin, base, sample[i].av[1:], nil, 60*time.Second)
		}(i)
	}
	wg.Wait()
	e.rep.Eval(len(sample))
	for _, s := range sample {
		want := implCli(s.av).Head()
		ok := true
		switch want {
		case "help":
			ok = s.res.Exit == 0 && strings.Contains(s.res.Stdout, "Usage:") && s.res.Stderr == ""
		case "usage":
			ok = s.res.Exit == 1 && s.res.Stdout == "" && strings.Contains(s.res.Stderr, "Error:")
		case "version":
			ok = s.res.Exit == 0 && s.res.Stderr == ""
		}
		e.rep.Nontrivial("bin:" + strings.Join(s.av, "\x00"))
		if !ok {
			e.rep.Violation("", map[string]any{"argv": s.av, "expected": want, "exit": s.res.Exit, "stdout": truncate(s.res.Stdout, 300), "stderr": truncate(s.res.Stderr, 300),
				"broken": "C17: exit status / streams of help and usage errors (Gv.Cli.run)"}, false)
		}
	}

	// (b) fault runs
	nRuns := 40
	if e.thorough {
		nRuns = 500
	}
	faults := []string{"directive", "methoddirective", "signature", "conversion", "marker", "compile", "pkgconflict"}
	var cases []*runCase
	for i := 0; i < nRuns; i++ {
		p := &proj.Project{Module: fmt.Sprintf("example.org/r%d", i)}
		n := 1 + r.Intn(4)
		twoPkgs := r.Chance(50)
		// how the goverter comments are spelled: one spelling for the whole project, or one per converter
		projStyle := rng.Pick(r, []string{"", "", "directive", "tab", "mixed"})
		for j := 0; j < n; j++ {
			c := &proj.Conv{Dir: "a", File: fmt.Sprintf("conv%d.go", j%2), Vars: r.Chance(25), Name: fmt.Sprintf("Conv%d", j)}
			c.Style = projStyle
			if projStyle == "mixed" {
				c.Style = rng.Pick(r, []string{"", "directive", "tab"})
			}
			if twoPkgs && r.Bool() {
				c.Dir = "b"
			}
			if r.Chance(45) || (i%4 != 0 && j == i%n) {
				c.Fault = rng.Pick(r, faults)
				if c.Fault == "pkgconflict" {
					c.Vars = false
				}
			}
			p.Convs = append(p.Convs, c)
		}
		if i%8 == 3 && len(p.Convs) >= 2 {
			// pinned: the converter that sorts FIRST fails in the generation stage, every later one is fine
			for j, c := range p.Convs {
				c.Fault = ""
				if j == 0 {
					c.Fault, c.Vars = "conversion", false
				}
			}
		}
		if i%8 == 7 && len(p.Convs) >= 2 {
			// pinned: only the converter that sorts LAST fails
			for j, c := range p.Convs {
				c.Fault = ""
				if j == len(p.Convs)-1 {
					c.Fault, c.Vars = "conversion", false
				}
			}
		}
		if i%8 == 5 {
			// pinned: the ONLY fault is a package conflict among three converters sharing one output file
			for j, c := range p.Convs {
				c.Fault = ""
				if j == 0 {
					c.Fault, c.Vars = "pkgconflict", false
				}
			}
		}
		if i%5 == 0 { // keep a share of fully successful runs
			for _, c := range p.Convs {
				c.Fault = ""
			}
		}
		rc := &runCase{ID: i, Project: p, Args: []string{"gen", "./..."}, root: filepath.Join(base, fmt.Sprintf("r%d", i))}
		if r.Chance(50) {
			rc.Prior = "generated"
		}
		if r.Chance(30) {
			rc.Args = []string{"gen", "-g", "ignoreMissing no"}
			seen := map[string]bool{}
			for _, c := range p.Convs {
				if !seen[c.Dir] {
					seen[c.Dir] = true
					rc.Args = append(rc.Args, "./"+c.Dir)
				}
			}
		}
		cases = append(cases, rc)
	}
	type obs struct {
		res                       scratch.Result
		created, changed, removed []string
		err                       error
	}
	out := make([]obs, len(cases))
	for i, rc := range cases {
		wg.Add(1)
		go func(i int, rc *runCase) {
			defer wg.Done()
			sem <- struct{}{}
			defer func() { <-sem }()
			if rc.Prior == "generated" {
				clean := *rc.Project
				clean.Convs = nil
				for _, c := range rc.Project.Convs {
					cc := *c
					cc.Fault = ""
					clean.Convs = append(clean.Convs, &cc)
				}
				if err := scratch.Write(rc.root, clean.Tree()); err != nil {
					out[i].err = err
					return
				}
				if res := scratch.Run(bin, rc.root, rc.Args, nil, 120*time.Second); res.Exit != 0 {
					out[i].err = fmt.Errorf("prior run of the fault-free variant failed: %s", res.Stderr)
					return
				}
			}
			if err := scratch.Write(rc.root, rc.Project.Tree()); err != nil {
				out[i].err = err
				return
			}
			before, _ := scratch.Snapshot(rc.root)
			out[i].res = scratch.Run(bin, rc.root, rc.Args, nil, 120*time.Second)
			after, _ := scratch.Snapshot(rc.root)
			out[i].created, out[i].changed, out[i].removed = scratch.Diff(before, after)
		}(i, rc)
	}
	wg.Wait()
	e.rep.Eval(len(cases))
	for i, rc := range cases {
		o := out[i]
		if o.err != nil {
			return o.err
		}
		faulty := rc.Project.Faulty()
		e.rep.Count(fmt.Sprintf("run.faulty=%v.prior=%s", faulty, rc.Prior))
		if faulty {
			e.rep.Nontrivial(fmt.Sprintf("%v", rc))
		}
		fail := func(why string) {
			e.rep.Violation("", map[string]any{"case": rc, "why": why, "exit": o.res.Exit, "stderr": scratch.Relativise(rc.root, truncate(o.res.Stderr, 1200)),
				"created": o.created, "changed": o.changed, "removed": o.removed, "broken": "C17: Gv.Cli.run vs a run of the goverter binary"}, false)
		}
		switch {
		case o.res.TimedOut:
			fail("timeout")
		case faulty && o.res.Exit != 1:
			fail(fmt.Sprintf("a faulty converter was selected but the exit status is %d", o.res.Exit))
		case faulty && strings.TrimSpace(o.res.Stderr) == "":
			fail("no diagnostic on stderr")
		case faulty && len(o.created)+len(o.changed)+len(o.removed) > 0:
			fail("a failing run created, changed or removed files")
		case !faulty && o.res.Exit != 0:
			fail("all converters are fine but the run failed")
		case !faulty && rc.Prior == "" && len(o.created) == 0:
			fail("successful run wrote nothing")
		case !faulty && strings.TrimSpace(o.res.Stderr) != "":
			fail("successful run printed on stderr")
		}
		if i%7 == 0 {
			e.rep.Sample(map[string]any{"converters": rc.Project.Convs, "args": rc.Args, "prior": rc.Prior, "exit": o.res.Exit, "created": o.created})
		}
	}
	// (c) faulty settings carried by every shape of converter, decided by the settings model (w10_c17.go)
	return w10C17(e, bin, base, r.Fork(1017))
}

func strNodes(xs []string) []*sx.Node {
	out := make([]*sx.Node, len(xs))
	for i, x := range xs {
		out[i] = sx.S(x)
	}
	return out
}
