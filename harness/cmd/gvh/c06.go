package main

import "strings"

func init() {
	campaigns["C06"] = func(e *env) error {
		e.rep.Rule = "cases = (converter, method, arguments): converters whose extend function (taking a struct, int or string; optionally a context argument, the converter itself, an error result) must be used for its pair at every position: direct, behind pointers, in slices, maps, nested structs and slices of pointers to structs, with 0-1 context parameters in either argument position and all three error-wrapping modes; every custom function stamps its identity and its arguments into its result, so the executed result shows which function ran with which arguments; compared with Gv.Gen + Gv.Eval. non-trivial = every call; distinct = (converter, method, arguments)"
		b, per := 2, 25
		if e.thorough {
			b, per = 10*e.scale, 40
		}
		if err := runFamilies(e, "C06", "extend", famExtend, b, per, 6, nil, nil); err != nil {
			return err
		}
		if err := runRecCustoms(e, b, per); err != nil {
			return err
		}
		e.rep.Rule += "; plus useUnderlyingTypeMethods: an extend function between the underlying types of named basics (optionally with a context parameter, fallible) used for the named pair at field, element, map value and pointer positions; a method lacking the context must be rejected"
		if err := runFamilies(e, "C06", "underlying", famUnderlying, b, per, 6, nil, nil); err != nil {
			return err
		}
		e.rep.Rule += "; plus extend functions with the same identifier declared in two packages (one line, several lines, patterns, repeated mention): each stays the implementation of its own pair"
		if err := runFamilies(e, "C06", "extend-pkgs", famExtendPkgs, b, per/2, 5, nil, nil); err != nil {
			return err
		}
		if err := aliasSpellingPinned(e); err != nil {
			return err
		}
		if err := runExtSel(e); err != nil {
			return err
		}
		if err := runExtList(e); err != nil {
			return err
		}
		e.rep.Rule += "; function attachment: methods with 1-6 `map [SRC] FIELD | FUNC` / `default FUNC` / ignore lines in random order (several functions, the same identifiers in a second package, a later map line without function for the same field, siblings): function of every field and the constructor after comments.ParseDocs + config.Parse vs Gv.Settings.parseMethodLines"
		if err := runFuncAttach(e); err != nil {
			return err
		}
		// which parameters of a custom function are context (and therefore never a conversion source) depends on the pattern
		// in effect where the function is named: the consumers campaign, shared with C12 / C14
		return runConsumers(e)
	}
}

// aliasSpellingPinned: `byte` / `uint8` and `rune` / `int32` are identical Go types, so an extend function declared with one
// spelling is the custom implementation of the pair written with the other one.  The oracle is the property itself (the
// function's recognisable result must appear), not the model: the model mirrors the code's text-keyed tables.
func aliasSpellingPinned(e *env) error {
	e.rep.Rule += "; pinned: extend functions over []uint8 / int32 (and []byte / rune) used for fields spelled []byte / rune (and []uint8 / int32): the function's recognisable result must appear in the converted value"
	kb := &k2Batch{Tag: "alias-spelling-pinned", Convs: map[string]string{}, ValModes: 4, Share: 0}
	kb.Types = `type AlIn struct {
	Raw  []byte
	Code rune
}
type AlOut struct {
	Raw  []byte
	Code rune
}
type AlIn2 struct {
	Raw  []uint8
	Code int32
}
type AlOut2 struct {
	Raw  []uint8
	Code int32
}
`
	kb.Extra = `func AlUpper8(b []uint8) []uint8 { return []uint8("STAMPED") }
func AlNext32(r int32) int32      { return 7777 }
func AlUpperB(b []byte) []byte    { return []byte("STAMPED") }
func AlNextR(r rune) rune         { return 7777 }
`
	add := func(name, ext, in, out string) {
		kb.Convs[name] = "// goverter:converter\n// goverter:extend " + ext + "\ntype " + name + " interface {\n\tConvert(source " + in + ") " + out + "\n}\n\n"
		kb.Order = append(kb.Order, name)
	}
	add("AlSameSpelling", "AlUpperB AlNextR", "AlIn", "AlOut")
	add("AlSameSpelling2", "AlUpper8 AlNext32", "AlIn2", "AlOut2")
	add("AlOtherSpelling", "AlUpper8 AlNext32", "AlIn", "AlOut")
	add("AlOtherSpelling2", "AlUpperB AlNextR", "AlIn2", "AlOut2")
	res, err := runK2(e, "c06alias", []*k2Batch{kb})
	if err != nil {
		return err
	}
	for _, be := range res.BuildErrors {
		e.rep.Violation("generated-code-does-not-compile", map[string]any{"build_output": be}, false)
	}
	e.rep.Eval(len(res.Calls))
	stamped := `(b "83") (b "84") (b "65") (b "77") (b "80") (b "69") (b "68")`
	seen := map[string]bool{}
	for _, c := range res.Calls {
		seen[c.Converter] = true
		e.rep.Nontrivial(c.Converter + strings.Join(c.Values, " "))
		e.rep.Count("alias-spelling.call")
		implUses := strings.Contains(c.Impl, stamped) && strings.Contains(c.Impl, `(f "Code" (b "7777"))`)
		modelUses := strings.Contains(c.Model, `(f "Raw" (tok "Al`) && strings.Contains(c.Model, `(f "Code" (tok "Al`)
		if implUses != modelUses {
			e.rep.Violation("", map[string]any{"call": c, "broken": "correspondence C06: the compiled generated code vs Gv.Gen + Gv.Eval disagree on whether the extend functions are called"}, false)
			continue
		}
		if !implUses {
			class := ""
			if strings.HasPrefix(c.Converter, "AlOtherSpelling") {
				class = "D25-extend-alias-spelling"
			}
			e.rep.Violation(class, map[string]any{"call": c, "expected": "Raw = the bytes of \"STAMPED\" and Code = 7777 (the results of the configured extend functions)",
				"broken": "C06: an extend function exists for the pair but the automatic conversion was generated"}, false)
		}
	}
	for _, n := range kb.Order {
		if !seen[n] {
			e.rep.Violation("", map[string]any{"converter": kb.Convs[n], "generation": res.GenErrors, "broken": "C06: a converter whose extend functions cover its pairs was not generated"}, false)
		}
	}
	return nil
}
