package main

func init() {
	campaigns["C06"] = func(e *env) error {
		e.rep.Rule = "cases = (converter, method, arguments): converters whose extend function (taking a struct, int or string; optionally a context argument, the converter itself, an error result) must be used for its pair at every position: direct, behind pointers, in slices, maps, nested structs and slices of pointers to structs, with 0-1 context parameters in either argument position and all three error-wrapping modes; every custom function stamps its identity and its arguments into its result, so the executed result shows which function ran with which arguments; compared with Gv.Gen + Gv.Eval. non-trivial = every call; distinct = (converter, method, arguments)"
		b, per := 2, 25
		if e.thorough {
			b, per = 10*e.scale, 40
		}
		if err := runFamilies(e, "C06", "extend", famExtend, b, per, 6, nil, nil); err != nil {
			return err
		}
		e.rep.Rule += "; plus useUnderlyingTypeMethods: an extend function between the underlying types of named basics (optionally with a context parameter, fallible) used for the named pair at field, element, map value and pointer positions; a method lacking the context must be rejected"
		if err := runFamilies(e, "C06", "underlying", famUnderlying, b, per, 6, nil, nil); err != nil {
			return err
		}
		e.rep.Rule += "; plus extend functions with the same identifier declared in two packages (one line, several lines, patterns, repeated mention): each stays the implementation of its own pair"
		if err := runFamilies(e, "C06", "extend-pkgs", famExtendPkgs, b, per/2, 5, nil, nil); err != nil {
			return err
		}
		if err := runExtSel(e); err != nil {
			return err
		}
		return runExtList(e)
	}
}
