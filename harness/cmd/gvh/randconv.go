package main

import (
	"fmt"
	"os"
	"path/filepath"
	"sort"
	"strings"
	"sync"
	"time"

	"gvh/internal/drv"
	"gvh/internal/gvx"
	"gvh/internal/k2"
	"gvh/internal/rng"
	"gvh/internal/scratch"
	"gvh/internal/sx"
)

// The compositional generator: every case is one converter interface over freshly declared types, put together from
// independent choices — field shapes, nested named pairs (which make goverter generate shared sub-methods), recursion,
// enums, types of another package with unexported fields, target structs with methods and with fields that differ only
// in case, source methods, custom functions (fallible, with contexts), sibling methods, update methods, and settings
// written at converter AND method level from the whole pool of inheritable settings.  The cases are not executed: the
// generation outcome (diagnostic class or table of generated methods) and, for successful ones, the TERM of every
// generated function read back from the emitted code are compared with the model (plan-level tie), which covers all
// runtime values at once.  This is where interactions of two features show that no hand-written family pairs up.

type rcOpts struct {
	// emphasis (percent boosts) chosen by the calling property
	Siblings, Update, Enums, Customs, FieldLines, Pointers, Foreign, Recursive, Default int
}

type rcCase struct {
	Name   string
	Types  string
	Custom string
	Conv   string
	Q      string // declarations for the foreign package
}

var rcFlagPool = []string{"skipCopySameType", "ignoreMissing", "ignoreUnexported", "matchIgnoreCase", "useZeroValueOnPointerInconsistency",
	"useUnderlyingTypeMethods", "wrapErrors", "update:ignoreZeroValueField", "update:ignoreZeroValueField:basic",
	"update:ignoreZeroValueField:struct", "update:ignoreZeroValueField:nillable", "default:update"}

func rcFlags(r *rng.R, pct int, allowWrapUsing bool) []string {
	var out []string
	wrapUsing := false
	for _, f := range rcFlagPool {
		if !r.Chance(pct) {
			continue
		}
		if f == "wrapErrors" && wrapUsing {
			continue
		}
		v := rng.Pick(r, []string{"", "", " yes", " no"})
		out = append(out, f+v)
	}
	if allowWrapUsing && r.Chance(pct) {
		hasWrap := false
		for _, f := range out {
			if strings.HasPrefix(f, "wrapErrors") {
				hasWrap = true
			}
		}
		if !hasWrap {
			out = append(out, "wrapErrorsUsing MODULE/wrap")
			wrapUsing = true
		}
	}
	if r.Chance(pct) {
		out = append(out, "enum:unknown "+rng.Pick(r, []string{"@ignore", "@error", "@panic", "@ignore"}))
	}
	if r.Chance(pct / 5) {
		out = append(out, "enum "+rng.Pick(r, []string{"no", "yes"}))
	}
	for i := len(out) - 1; i > 0; i-- {
		j := r.Intn(i + 1)
		out[i], out[j] = out[j], out[i]
	}
	return out
}

type rcField struct {
	name, tname string // source / target field name ("" = absent on that side)
	st, tt      string
}

// rcGen builds one case.
func rcGen(r *rng.R, id int, o rcOpts) *rcCase {
	p := fmt.Sprintf("R%d", id)
	c := &rcCase{Name: p + "C"}
	var ty, cu, q strings.Builder
	var extend []string
	ch := func(base, boost int) bool { return r.Chance(base + boost) }

	// a nested named pair shared by several positions (sub-methods); optionally recursive
	rec := ch(20, o.Recursive)
	fallibleLeaf := ch(25, o.Customs)
	leafS, leafT := "string", "string"
	leafCtx := false
	if fallibleLeaf {
		leafT = "int"
		leafCtx = ch(20, o.Recursive/2)
		if leafCtx {
			// the leaf function needs a context: every method on the way has to pass it on (also helpers built before it was known)
			if r.Bool() {
				cu.WriteString(fmt.Sprintf("// goverter:context tag\nfunc %sAtoi(s string, tag string) (int, error) { return 0, nil }\n\n", p))
			} else {
				cu.WriteString(fmt.Sprintf("// goverter:context tag\nfunc %sAtoi(s string, tag string) int { return 0 }\n\n", p))
			}
		} else {
			cu.WriteString(fmt.Sprintf("func %sAtoi(s string) (int, error) { return 0, nil }\n\n", p))
		}
		extend = append(extend, p+"Atoi")
	}
	recS, recT := "", ""
	if rec {
		switch r.Intn(4) {
		case 0:
			recS, recT = fmt.Sprintf("\tKids []%sInA\n", p), fmt.Sprintf("\tKids []%sInB\n", p)
		case 1:
			recS, recT = fmt.Sprintf("\tNext *%sInA\n", p), fmt.Sprintf("\tNext *%sInB\n", p)
		case 2:
			recS, recT = fmt.Sprintf("\tM map[string]%sInA\n", p), fmt.Sprintf("\tM map[string]%sInB\n", p)
		default:
			recS, recT = fmt.Sprintf("\tNext *%sInA\n\tKids []%sInA\n", p, p), fmt.Sprintf("\tNext *%sInB\n\tKids []%sInB\n", p, p)
		}
	}
	// field order matters for the dirty rebuild: the recursive field before or after the fallible one
	if r.Bool() {
		ty.WriteString(fmt.Sprintf("type %[1]sInA struct {\n%[2]s\tV %[4]s\n\tW int\n}\ntype %[1]sInB struct {\n%[3]s\tV %[5]s\n\tW int\n}\n", p, recS, recT, leafS, leafT))
	} else {
		ty.WriteString(fmt.Sprintf("type %[1]sInA struct {\n\tV %[4]s\n\tW int\n%[2]s}\ntype %[1]sInB struct {\n\tV %[5]s\n\tW int\n%[3]s}\n", p, recS, recT, leafS, leafT))
	}
	// an embedded struct on both sides (the field is named after the type: the target's twin lives in the other package);
	// its conversion goes through a helper, the error path names the embedded field like any other
	embedded := r.Chance(18)
	if embedded {
		ty.WriteString(fmt.Sprintf("type %[1]sEmb struct {\n\tEV %[2]s\n\tEW int\n}\n", p, leafS))
		q.WriteString(fmt.Sprintf("type %[1]sEmb struct {\n\tEV %[2]s\n\tEW int\n}\n\n", p, leafT))
	}
	// enums
	ty.WriteString(fmt.Sprintf("type %[1]sCol int\nconst (\n\t%[1]sColRed %[1]sCol = iota\n\t%[1]sColGreen\n\t%[1]sColBlue\n)\n", p))
	// the target enum lives in the other package, so that its members can carry the same names
	if r.Chance(93) {
		q.WriteString(fmt.Sprintf("type %[1]sColT string\n\nconst (\n\t%[1]sColRed %[1]sColT = \"red\"\n\t%[1]sColGreen %[1]sColT = \"green\"\n\t%[1]sColBlue %[1]sColT = \"blue\"\n)\n\n", p))
	} else {
		q.WriteString(fmt.Sprintf("type %[1]sColT int\n\nconst (\n\t%[1]sColRed %[1]sColT = iota + 1\n\t%[1]sColGreen\n)\n\n", p))
	}
	// a type of another package with state the output package cannot see
	q.WriteString(fmt.Sprintf("type %[1]sBox struct {\n\tName string\n\tTags []string\n\titems []string\n\tidx map[string]int\n}\n\nfunc (b *%[1]sBox) Add(s string) { b.items = append(b.items, s) }\n\ntype %[1]sOpen struct {\n\tName string\n\tL []int\n}\n\n", p))
	// custom pair
	withKA := ch(35, o.Customs)
	kaFallible, kaCtx, kaSelf := r.Chance(40), r.Chance(35), r.Chance(20)
	if withKA {
		ty.WriteString(fmt.Sprintf("type %[1]sKA struct{ V int }\ntype %[1]sKB struct{ Stamp string }\n", p))
		params := []string{"s " + p + "KA"}
		doc := ""
		if kaCtx {
			params = append(params, "tag string")
			doc = "// goverter:context tag\n"
		}
		if kaSelf {
			params = append([]string{"c " + c.Name}, params...)
		}
		ret, body := p+"KB", "return "+p+"KB{}"
		if kaFallible {
			ret, body = "("+p+"KB, error)", "return "+p+"KB{}, nil"
		}
		cu.WriteString(fmt.Sprintf("%sfunc %sKConv(%s) %s { %s }\n\n", doc, p, strings.Join(params, ", "), ret, body))
		extend = append(extend, p+"KConv")
	}

	// fields of the top-level pair
	type shape struct{ s, t string }
	inA, inB := p+"InA", p+"InB"
	pool := []shape{
		{"int", "int"}, {"string", "string"}, {"*int", "*int"}, {"[]string", "[]string"}, {"map[string]int", "map[string]int"},
		{inA, inB}, {"*" + inA, "*" + inB}, {"[]" + inA, "[]" + inB}, {"map[string]" + inA, "map[string]" + inB}, {"[]*" + inA, "[]*" + inB},
		{p + "Col", "q." + p + "ColT"}, {"[]" + p + "Col", "[]q." + p + "ColT"}, {"map[" + p + "Col]string", "map[q." + p + "ColT]string"},
		{"[2]int", "[]int"}, {"struct{ A int; B " + inA + " }", "struct{ A int; B " + inB + " }"},
		{"time.Duration", "time.Duration"}, {"[]byte", "[]byte"},
	}
	if ch(30, o.Pointers) {
		pool = append(pool, shape{"int", "*int"}, shape{inA, "*" + inB}, shape{"**int", "**int"},
			shape{"[]string", "*[]string"}, shape{"[]" + inA, "[]*" + inB})
		if r.Chance(40) {
			pool = append(pool, shape{"*int", "int"}, shape{"*" + inA, inB}, shape{"*[]string", "[]string"}, shape{"map[string]*" + inA, "map[string]" + inB})
		}
	}
	if ch(20, o.Foreign) {
		pool = append(pool, shape{"q." + p + "Box", "q." + p + "Box"}, shape{"[]q." + p + "Box", "[]q." + p + "Box"}, shape{"*q." + p + "Box", "*q." + p + "Box"},
			shape{"q." + p + "Open", "q." + p + "Open"}, shape{"map[string]q." + p + "Open", "map[string]q." + p + "Open"})
	}
	if withKA {
		pool = append(pool, shape{p + "KA", p + "KB"}, shape{"[]" + p + "KA", "[]" + p + "KB"}, shape{"*" + p + "KA", "*" + p + "KB"}, shape{"map[string]" + p + "KA", "map[string]" + p + "KB"})
	}
	var forced []string
	// named types over a map of interface{} values with an extend function on the UNDERLYING types (useUnderlyingTypeMethods):
	// every table is keyed by the printed type, and the literal `interface{}` is part of it
	if r.Chance(10) {
		ty.WriteString(fmt.Sprintf("type %[1]sAttrs map[string]interface{}\ntype %[1]sAttrsT map[string]interface{}\n", p))
		cu.WriteString(fmt.Sprintf("func %sConvAttrs(m map[string]interface{}) map[string]interface{} { return m }\n\n", p))
		extend = append(extend, p+"ConvAttrs")
		pool = append(pool, shape{p + "Attrs", p + "AttrsT"}, shape{p + "Attrs", p + "AttrsT"}, shape{"[]" + p + "Attrs", "[]" + p + "AttrsT"})
		forced = append(forced, "useUnderlyingTypeMethods")
	}
	if r.Chance(8) {
		pool = append(pool, shape{"int", "int64"}, shape{"[]int", "[2]int"}, shape{"[2]" + inA, "[2]" + inB}, shape{"any", "any"}, shape{"map[any]int", "map[any]int"}, shape{"map[[2]string]int", "map[[2]string]int"},
			shape{"chan int", "chan int"}, shape{"func() int", "func() int"})
	}
	nf := 2 + r.Intn(4)
	var fields []rcField
	for i := 0; i < nf; i++ {
		sh := rng.Pick(r, pool)
		if strings.HasPrefix(sh.s, "*") && !strings.HasPrefix(sh.t, "*") || strings.HasPrefix(sh.s, "map[string]*") && !strings.HasPrefix(sh.t, "map[string]*") {
			if r.Chance(75) {
				forced = append(forced, "useZeroValueOnPointerInconsistency")
			}
		}
		if strings.Contains(sh.s, "Box") && r.Chance(75) {
			forced = append(forced, "ignoreUnexported")
		}
		n := fmt.Sprintf("F%d", i)
		f := rcField{name: n, tname: n, st: sh.s, tt: sh.t}
		switch x := r.Intn(40); {
		case x == 0:
			f.tname = strings.ToLower(n[:1]) + n[1:] // unexported target field
		case x == 1:
			f.name = "" // no source
		case x == 2:
			f.tname = "" // not in target
		case x == 3:
			f.tname = "Renamed" + n
		case x == 4:
			f.name = strings.ToLower(n[:1]) + n[1:] // unexported source field (same package: accessible)
		}
		fields = append(fields, f)
	}
	// two target fields that differ only in case
	caseTwins := r.Chance(15)
	// source path material: a nested pointer struct with slice / map / basic leaves
	ty.WriteString(fmt.Sprintf("type %[1]sDet struct {\n\tTags []string\n\tAttrs map[string]int\n\tName string\n\tDeep *%[1]sDet2\n}\ntype %[1]sDet2 struct {\n\tN int\n\tPN *int\n}\n", p))
	ty.WriteString(fmt.Sprintf("type %[1]sWh struct {\n\tVal %[1]sDet\n}\n", p))
	var sb, tb strings.Builder
	sb.WriteString(fmt.Sprintf("type %sS struct {\n", p))
	tb.WriteString(fmt.Sprintf("type %sT struct {\n", p))
	for _, f := range fields {
		if f.name != "" {
			sb.WriteString("\t" + f.name + " " + f.st + "\n")
		}
		if f.tname != "" {
			tb.WriteString("\t" + f.tname + " " + f.tt + "\n")
		}
	}
	sb.WriteString(fmt.Sprintf("\tDet *%[1]sDet\n\tVal %[1]sDet\n", p))
	if embedded {
		sb.WriteString("\t" + p + "Emb\n")
		tb.WriteString("\tq." + p + "Emb\n")
	}
	// an embedded POINTER struct in the source whose field name exists only there: not a source field of the outer struct
	// (no promotion through embedded structs), so the target field is missing — or skipped under ignoreMissing
	embPtr := r.Chance(12)
	if embPtr {
		ty.WriteString(fmt.Sprintf("type %sAud struct {\n\tCreatedBy string\n}\n", p))
		sb.WriteString("\t*" + p + "Aud\n")
		tb.WriteString("\tCreatedBy string\n")
		if r.Chance(70) {
			forced = append(forced, "ignoreMissing")
		}
	}
	// a method of the by-value sub struct found through autoMap
	autoVal := r.Chance(14)
	if autoVal {
		tb.WriteString("\tLabel string\n")
	}
	if caseTwins {
		sb.WriteString("\tKey string\n\tUuid string\n")
		tb.WriteString("\tUUID string\n\tUuid string\n")
	}
	// path targets
	type pathT struct{ name, ty, path string }
	var paths []pathT
	if ch(35, o.FieldLines) {
		cands := []pathT{{"PTags", "*[]string", "Det.Tags"}, {"PTags2", "[]string", "Det.Tags"}, {"PAttrs", "*map[string]int", "Det.Attrs"}, {"PName", "*string", "Det.Name"},
			{"PName2", "string", "Det.Name"}, {"PN", "*int", "Det.Deep.N"}, {"PPN", "*int", "Det.Deep.PN"}, {"VName", "string", "Val.Name"}, {"VTags", "[]string", "Val.Tags"},
			{"VN", "*int", "Val.Deep.N"}, {"Whole", p + "Wh", "."}}
		for i := 0; i < 1+r.Intn(3); i++ {
			pt := rng.Pick(r, cands)
			dup := false
			for _, x := range paths {
				if x.name == pt.name {
					dup = true
				}
			}
			if !dup {
				paths = append(paths, pt)
				tb.WriteString("\t" + pt.name + " " + pt.ty + "\n")
			}
		}
	}
	srcMethod := r.Chance(25)
	if srcMethod {
		tb.WriteString("\tComp string\n")
	}
	sb.WriteString("}\n")
	tb.WriteString("}\n")
	ty.WriteString(sb.String())
	ty.WriteString(tb.String())
	// methods on the target (field settings must not mistake them for fields) and on the source (usable as sources)
	tgtMethods := r.Chance(35)
	if tgtMethods {
		ty.WriteString(fmt.Sprintf("func (t %[1]sT) Validate() error { return nil }\nfunc (t *%[1]sT) Display() string { return \"\" }\n", p))
	}
	if autoVal {
		ty.WriteString(fmt.Sprintf("func (d %sDet) Label() string { return d.Name }\n", p))
	}
	if srcMethod {
		if r.Bool() {
			ty.WriteString(fmt.Sprintf("func (s %sS) Computed() string { return \"\" }\n", p))
		} else {
			ty.WriteString(fmt.Sprintf("func (s %sS) Computed() (string, error) { return \"\", nil }\n", p))
		}
	}

	// the converter
	var b strings.Builder
	b.WriteString("// goverter:converter\n")
	if r.Chance(12) {
		b.WriteString("// goverter:output:format function\n")
	}
	for _, e := range extend {
		b.WriteString("// goverter:extend " + e + "\n")
	}
	convFlags := rcFlags(r, 14, true)
	hasUnknown := false
	for _, f := range convFlags {
		if strings.HasPrefix(f, "enum:unknown") {
			hasUnknown = true
		}
	}
	if !hasUnknown && r.Chance(85) {
		convFlags = append(convFlags, "enum:unknown "+rng.Pick(r, []string{"@ignore", "@panic", p + "ColGreen"}))
	}
	for _, f := range forced {
		dup := false
		for _, g := range convFlags {
			if strings.HasPrefix(g, f) {
				dup = true
			}
		}
		if !dup {
			convFlags = append(convFlags, f)
		}
	}
	for _, f := range convFlags {
		b.WriteString("// goverter:" + f + "\n")
	}
	b.WriteString("type " + c.Name + " interface {\n")
	ctxParam := ""
	ctxDoc := ""
	if (withKA && kaCtx && r.Chance(80)) || (leafCtx && r.Chance(92)) {
		ctxParam, ctxDoc = ", tag string", "\t// goverter:context tag\n"
	}
	retErr := fallibleLeaf || (withKA && kaFallible) || r.Chance(15)
	if r.Chance(6) {
		retErr = false
	}
	res := func(t string) string {
		if retErr {
			return "(" + t + ", error)"
		}
		return t
	}
	fieldLines := func(withFns bool) []string {
		var out []string
		for _, pt := range paths {
			if pt.path == "." {
				out = append(out, "map . "+pt.name)
			} else {
				out = append(out, "map "+pt.path+" "+pt.name)
			}
		}
		for _, f := range fields {
			if f.tname != "" && f.name == "" && r.Chance(88) {
				out = append(out, "ignore "+f.tname)
			}
			if f.tname != "" && f.name != "" && f.tname != f.name && !strings.EqualFold(f.tname, f.name) && r.Chance(92) {
				out = append(out, "map "+f.name+" "+f.tname)
			}
		}
		if srcMethod && r.Chance(85) {
			out = append(out, "map Computed Comp")
		}
		if ch(12, o.FieldLines) && len(fields) > 0 {
			f := rng.Pick(r, fields)
			if f.tname != "" {
				out = append(out, "ignore "+f.tname)
			}
		}
		if caseTwins && r.Chance(92) {
			out = append(out, "map Key UUID")
		}
		// names that are not fields of the target: methods of the target, source-only names, anything
		if r.Chance(6) {
			out = append(out, "ignore "+rng.Pick(r, []string{"Validate", "Display", "Det", "Nope", "f0"}))
		}
		if r.Chance(4) {
			out = append(out, "map F0 "+rng.Pick(r, []string{"Validate", "Display", "Nope"}))
		}
		if autoVal && r.Chance(90) {
			out = append(out, "autoMap Val")
		} else if r.Chance(10) {
			out = append(out, "autoMap "+rng.Pick(r, []string{"Det", "Val", "Det.Deep", "Val.Deep"}))
		}
		if withFns && ch(12, o.Default) {
			out = append(out, "default "+p+"NewT")
		}
		return out
	}
	needCtor := false
	writeMethod := func(name, sig string, lines []string) {
		for _, l := range lines {
			if strings.HasPrefix(l, "default ") {
				needCtor = true
			}
			b.WriteString("\t// goverter:" + l + "\n")
		}
		b.WriteString("\t" + name + sig + "\n")
	}
	ptrTop := r.Chance(25)
	sTop, tTop := p+"S", p+"T"
	if ptrTop {
		sTop, tTop = "*"+sTop, "*"+tTop
		// pointer depth beyond one on either side (field settings belong to methods over structs or pointers to structs)
		switch r.Intn(10) {
		case 0:
			tTop = "*" + tTop
		case 1:
			sTop = "*" + sTop
		case 2:
			sTop, tTop = "*"+sTop, "*"+tTop
		}
	}
	// sibling names: the one with method-level settings sorts before or after the plain one
	nameA, nameB := "Alpha", "Beta"
	if r.Bool() {
		nameA, nameB = "Zeta", "Beta"
	}
	la := append(rcFlags(r, 10, false), fieldLines(true)...)
	if ctxDoc != "" {
		b.WriteString(ctxDoc)
	}
	writeMethod(nameA, "(source "+sTop+ctxParam+") "+res(tTop), la)
	if ch(45, o.Siblings) {
		// a sibling that reaches the same nested pairs through its own struct
		ty.WriteString(fmt.Sprintf("type %[1]sS2 struct {\n\tA %[2]s\n\tP *%[2]s\n\tL []%[2]s\n\tC %[1]sCol\n}\ntype %[1]sT2 struct {\n\tA %[3]s\n\tP *%[3]s\n\tL []%[3]s\n\tC q.%[1]sColT\n}\n", p, inA, inB))
		if ctxDoc != "" {
			b.WriteString(ctxDoc)
		}
		writeMethod(nameB, "(source "+p+"S2"+ctxParam+") "+res(p+"T2"), rcFlags(r, 8, false))
		if r.Chance(30) {
			ty.WriteString(fmt.Sprintf("type %[1]sS3 struct {\n\tP *%[2]s\n}\ntype %[1]sT3 struct {\n\tP %[3]s\n}\n", p, inA, inB))
			if ctxDoc != "" {
				b.WriteString(ctxDoc)
			}
			writeMethod("Gamma", "(source "+p+"S3"+ctxParam+") "+res(p+"T3"), rcFlags(r, 10, false))
		}
	}
	if r.Chance(20) {
		// a declared method for the nested pair itself
		if ctxDoc != "" {
			b.WriteString(ctxDoc)
		}
		writeMethod("Inner", "(source "+inA+ctxParam+") "+res(inB), rcFlags(r, 8, false))
	}
	if withKA && !kaSelf && r.Chance(35) {
		// an explicit method with exactly the signature of the extend function: it delegates to it
		sig := "(source " + p + "KA"
		if kaCtx {
			sig += ", tag string"
			b.WriteString("\t// goverter:context tag\n")
		}
		sig += ") "
		if kaFallible {
			sig += "(" + p + "KB, error)"
		} else {
			sig += p + "KB"
		}
		writeMethod("Kdirect", sig, nil)
	}
	if ch(15, o.Enums) {
		// the enum pair as a method of its own: enum:map / enum:unknown written on it apply here (and only here)
		lines := rcFlags(r, 6, false)
		if r.Chance(60) {
			lines = append(lines, "enum:unknown "+rng.Pick(r, []string{p + "ColGreen", p + "ColRed", "@ignore", "@panic"}))
		}
		if r.Chance(60) {
			lines = append(lines, "enum:map "+p+rng.Pick(r, []string{"ColGreen", "ColRed", "ColBlue"})+" "+rng.Pick(r, []string{p + "ColRed", p + "ColGreen", "@ignore", p + "Nope"}))
		}
		if r.Chance(25) {
			lines = append(lines, "enum:transform regex "+p+"Col(Gr|Bl).* "+p+"ColRed")
		}
		writeMethod("Colour", "(source "+p+"Col) "+res("q."+p+"ColT"), lines)
	}
	if ch(12, o.Default) {
		// a method whose pointer side is an ANONYMOUS struct: the default constructor and default:update apply to it like to a named one
		ty.WriteString(fmt.Sprintf("type %[1]sAn struct {\n\tV string\n\tW int\n\tOrigin string\n}\n", p))
		cu.WriteString(fmt.Sprintf("func %[1]sNewAn() %[1]sAn { return %[1]sAn{} }\nfunc %[1]sNewAnP() *struct{ V string; W int; Origin string } { return nil }\n\n", p))
		lines := []string{"ignoreMissing"}
		if r.Bool() {
			lines = append(lines, "default:update")
		}
		if r.Bool() {
			lines = append(lines, "useZeroValueOnPointerInconsistency")
		}
		if r.Bool() {
			writeMethod("AnonIn", "(source *struct{ V string; W int }) "+res(p+"An"), append(lines, "default "+p+"NewAn"))
		} else {
			writeMethod("AnonOut", "(source "+p+"An) "+res("*struct{ V string; W int; Origin string }"), append(lines, "default "+p+"NewAnP"))
		}
	}
	if ch(25, o.Update) {
		src := p + "S"
		if r.Bool() {
			src = "*" + src
		}
		lines := append([]string{"update target"}, rcFlags(r, 18, false)...)
		// update methods filled by functions only
		if r.Chance(25) {
			lines = []string{"update target"}
			for _, f := range fields {
				if f.tname != "" {
					lines = append(lines, "ignore "+f.tname)
				}
			}
			for _, pt := range paths {
				lines = append(lines, "ignore "+pt.name)
			}
			if caseTwins {
				lines = append(lines, "ignore UUID", "ignore Uuid")
			}
			ty.WriteString(fmt.Sprintf("type %[1]sUT struct {\n\tRev int\n\tWho string\n}\n", p))
			cu.WriteString(fmt.Sprintf("func %[1]sRev() int { return 0 }\nfunc %[1]sWho() string { return \"\" }\n\n", p))
			e := ""
			if retErr {
				e = " error"
			}
			writeMethod("Touch", "(source *"+p+"S, target *"+p+"UT)"+e, []string{"update target", "map Rev | " + p + "Rev", "map Who | " + p + "Who"})
		} else {
			lines = append(lines, fieldLines(false)...)
			e := ""
			if retErr {
				e = " error"
			}
			if ctxDoc != "" {
				b.WriteString(ctxDoc)
			}
			writeMethod("Upd", "(source "+src+", target *"+p+"T"+ctxParam+")"+e, lines)
		}
	}
	b.WriteString("}\n\n")
	if needCtor {
		if ptrTop && r.Bool() {
			cu.WriteString(fmt.Sprintf("func %[1]sNewT() *%[1]sT { return &%[1]sT{} }\n\n", p))
		} else {
			cu.WriteString(fmt.Sprintf("func %[1]sNewT() %[1]sT { return %[1]sT{} }\n\n", p))
		}
	}
	c.Types, c.Custom, c.Conv, c.Q = ty.String(), cu.String(), b.String(), q.String()
	return c
}

// runRandK1 generates n cases in batches, runs the real generator and the model on each and compares outcome,
// method table and plan terms.
func runRandK1(e *env, tag string, n, perBatch int, o rcOpts) error {
	return runRandK1Opt(e, tag, n, perBatch, o, false)
}

// compile = the emitted file of every successful case is also compiled together with the user's packages (C01).
func runRandK1Opt(e *env, tag string, n, perBatch int, o rcOpts, compile bool) error {
	r := e.r.Fork(uint64(len(tag))*104729 + 17)
	base := filepath.Join(e.scratch, "rand-"+tag)
	type batch struct {
		root   string
		module string
		cases  map[string]*rcCase
	}
	var batches []batch
	for bi := 0; bi*perBatch < n; bi++ {
		module := fmt.Sprintf("example.org/rk%s%d", strings.ToLower(tag), bi)
		root := filepath.Join(base, fmt.Sprintf("b%d", bi))
		var ty, cu, cv, q strings.Builder
		cases := map[string]*rcCase{}
		for i := 0; i < perBatch && bi*perBatch+i < n; i++ {
			c := rcGen(r, bi*1000+i, o)
			cases[c.Name] = c
			ty.WriteString(c.Types)
			cu.WriteString(c.Custom)
			cv.WriteString(strings.ReplaceAll(c.Conv, "MODULE", module))
			q.WriteString(c.Q)
		}
		imp := "import (\n\t\"time\"\n\n\t\"" + module + "/q\"\n)\n\nvar _ time.Duration\nvar _ q.Anchor\n\n"
		tree := scratch.Tree{"go.mod": "module " + module + "\n\ngo 1.18\n",
			"p/types.go":  "package p\n\n" + imp + ty.String(),
			"p/conv.go":   "package p\n\nimport \"" + module + "/q\"\n\nvar _ q.Anchor\n\n" + cv.String(),
			"p/custom.go": "package p\n\n" + cu.String(),
			"q/q.go":      "package q\n\ntype Anchor struct{}\n\n" + q.String()}
		for k, v := range k2.SupportFiles(module) {
			tree[k] = v
		}
		if err := scratch.Write(root, tree); err != nil {
			return err
		}
		batches = append(batches, batch{root, module, cases})
	}
	type item struct {
		c   *rcCase
		oc  *gvx.ConvOutcome
		req *sx.Node
	}
	var mu sync.Mutex
	var items []item
	var compileErrs []map[string]any
	var firstErr error
	var wg sync.WaitGroup
	sem := make(chan struct{}, 8)
	stages := map[string]int{}
	for _, b := range batches {
		wg.Add(1)
		go func(b batch) {
			defer wg.Done()
			sem <- struct{}{}
			defer func() { <-sem }()
			res := gvx.RunBatch(b.root, gvx.Options{Patterns: []string{"./p"}, Constraint: "!goverter"})
			mu.Lock()
			defer mu.Unlock()
			if res.DocsErr != nil {
				if firstErr == nil {
					firstErr = fmt.Errorf("rand-%s: generated package does not load: %s", tag, truncate(res.DocsErr.Error(), 2500))
				}
				return
			}
			if compile {
				if msg := rcCompile(b.root, b.module, res, b.cases); msg != nil {
					for _, m := range msg {
						compileErrs = append(compileErrs, m)
					}
				}
			}
			for _, oc := range res.Outcomes {
				stages[oc.Stage]++
				if oc.Stage == "config" || oc.Conv == nil {
					continue
				}
				req, unsup := gvx.GenRequest(0, oc.Conv)
				if len(unsup) > 0 {
					stages["unsupported"]++
					if os.Getenv("GVH_DEBUG") != "" {
						fmt.Fprintln(os.Stderr, "UNSUPPORTED", oc.Raw.InterfaceName, unsup)
					}
					continue
				}
				gvx.AddLifted(req, oc)
				items = append(items, item{b.cases[oc.Raw.InterfaceName], oc, req})
			}
		}(b)
	}
	wg.Wait()
	if firstErr != nil {
		return firstErr
	}
	for _, ce := range compileErrs {
		ce["broken"] = e.prop + ": code emitted for a successful generation does not compile (compositional cases)"
		e.rep.Violation(rcCompileClass(ce), ce, false)
	}
	if compile {
		e.rep.Note("compositional cases (%s): the emitted file of every successful case compiled with the user's packages: %d do not compile", tag, len(compileErrs))
	}
	sort.Slice(items, func(i, j int) bool { return items[i].c.Name < items[j].c.Name })
	var reqs []*sx.Node
	for _, it := range items {
		reqs = append(reqs, it.req)
	}
	answers, err := drv.Run(reqs)
	if err != nil {
		return err
	}
	e.rep.Eval(len(reqs))
	var sym symAcc
	nOK := 0
	for i, a := range answers {
		it := items[i]
		src := it.c.Types + it.c.Custom + it.c.Conv
		var impl *sx.Node
		implErr := ""
		switch it.oc.Stage {
		case "ok":
			tbl, err := gvx.MethodTable(it.oc.Files)
			if err != nil {
				impl = sx.H("err", sx.A("renderError"))
				implErr = err.Error()
			} else {
				impl = tbl
				nOK++
			}
		case "generate":
			impl = sx.H("err", sx.A(gvx.ClassifyGenErr(it.oc.Err)))
			implErr = it.oc.Err
		default:
			impl = sx.H("err", sx.A(it.oc.Stage))
			implErr = it.oc.Err
		}
		model := gvx.ModelTable(a)
		if strings.HasPrefix(model.String(), "(err unsupported") {
			e.rep.Count("rand." + tag + ".unsupported")
			continue
		}
		e.rep.Nontrivial(src)
		cls := impl.Head()
		if cls == "err" {
			cls = impl.L[1].S
		}
		e.rep.Count("rand." + tag + "." + cls)
		if os.Getenv("GVH_DEBUG") != "" && cls != "ok" {
			fmt.Fprintln(os.Stderr, "RANDERR", cls, strings.ReplaceAll(lastN(implErr, 260), "\n", " | "))
		}
		if model.String() != impl.String() {
			e.rep.Violation("", map[string]any{"converter_source": src, "foreign_package": it.c.Q, "implementation": impl.String(), "model": model.String(),
				"impl_error": lastN(implErr, 900), "broken": "correspondence " + e.prop + " (compositional cases): Gv.Gen.generate vs generator.Generate"}, false)
			continue
		}
		if it.oc.Stage == "ok" {
			if sh, err := gvx.ShapeOf(it.oc.Files); err == nil {
				for _, d := range sh.Decls {
					if !(strings.HasPrefix(d, "func:") || strings.HasPrefix(d, "method:") || strings.HasPrefix(d, "type-emptystruct:")) {
						e.rep.Violation("", map[string]any{"converter_source": src, "declaration": d,
							"broken": e.prop + " (compositional cases): the emitted file declares something else than the converter struct, its methods / functions and init()"}, false)
					}
				}
				for _, im := range sh.Imports {
					if im == "reflect" {
						e.rep.Violation("", map[string]any{"converter_source": src, "import": im, "broken": e.prop + " (compositional cases): the emitted file imports reflect"}, false)
					}
				}
			}
		}
		if sr := gvx.SymOf(a); sr != nil {
			sym.equal += sr.Equal
			sym.unliftable += len(sr.Unliftable)
			if len(sr.Unliftable) > 0 && len(sym.samples) < 3 {
				sym.samples = append(sym.samples, sr.Unliftable[0])
			}
			for _, d := range sr.Diffs {
				sym.diffs = append(sym.diffs, map[string]any{"converter_source": src, "foreign_package": it.c.Q, "method": d.Method, "model_term": d.Model, "emitted_code_term": d.Impl})
			}
		}
		if i%97 == 0 {
			e.rep.Sample(map[string]any{"compositional_case": truncate(it.c.Conv, 600), "outcome": truncate(impl.String(), 200)})
		}
	}
	sym.report(e, e.prop+" (compositional "+tag+")")
	e.rep.Note("compositional cases (%s): %d converters reached the generator (%d generated successfully), stages %v", tag, len(items), nOK, stages)
	return nil
}

// randEmphasis: the properties whose check ends with the compositional campaign, and what each stresses.
var randEmphasis = map[string]rcOpts{
	"C01": {Recursive: 40, Customs: 35},
	"C02": {Pointers: 40, FieldLines: 30},
	"C03": {},
	"C04": {Foreign: 50, Pointers: 20},
	"C05": {FieldLines: 45},
	"C06": {Customs: 45, FieldLines: 20},
	"C07": {Customs: 45, Siblings: 40, Recursive: 20},
	"C08": {Enums: 60, Siblings: 40},
	"C10": {Update: 60, FieldLines: 20, Pointers: 35},
	"C11": {Pointers: 45, Default: 30, Siblings: 30},
	"C12": {Siblings: 50},
	"C18": {Customs: 30},
	"C13": {Recursive: 60, Customs: 40},
}

func runRandFor(e *env) error {
	o, ok := randEmphasis[e.prop]
	if !ok {
		return nil
	}
	n := 1000
	if e.thorough {
		n = 1500 * e.scale
	}
	return runRandK1Opt(e, e.prop, n, 100, o, e.prop == "C01")
}

// rcCompile writes every emitted file into a directory of its own inside the scratch module and builds the module;
// compile errors are attributed to the converter owning the directory.
func rcCompile(root, module string, res *gvx.Batch, cases map[string]*rcCase) []map[string]any {
	dirOf := map[string]*rcCase{}
	n := 0
	for _, oc := range res.Outcomes {
		if oc.Stage != "ok" {
			continue
		}
		dir := fmt.Sprintf("gen%d", n)
		n++
		for path, content := range oc.Files {
			dst := filepath.Join(root, dir, filepath.Base(path))
			_ = os.MkdirAll(filepath.Dir(dst), 0o755)
			_ = os.WriteFile(dst, content, 0o644)
		}
		dirOf[dir] = cases[oc.Raw.InterfaceName]
	}
	if n == 0 {
		return nil
	}
	r := scratch.Run("go", root, []string{"build", "./..."}, []string{"GOFLAGS=-mod=mod", "GOPROXY=off", "GOSUMDB=off", "GOTOOLCHAIN=local"}, 300*time.Second)
	if r.Exit == 0 {
		return nil
	}
	byDir := map[string][]string{}
	for _, line := range strings.Split(r.Stderr+r.Stdout, "\n") {
		if i := strings.Index(line, "/generated.go:"); i > 0 {
			d := line[:i]
			if j := strings.LastIndex(d, "gen"); j >= 0 {
				d = d[j:]
			}
			byDir[d] = append(byDir[d], strings.TrimSpace(line))
		}
	}
	var out []map[string]any
	if len(byDir) == 0 {
		return []map[string]any{{"build_output": truncate(r.Stderr+r.Stdout, 3000)}}
	}
	var dirs []string
	for d := range byDir {
		dirs = append(dirs, d)
	}
	sort.Strings(dirs)
	for _, d := range dirs {
		m := map[string]any{"build_output": strings.Join(byDir[d], "\n")}
		if c := dirOf[d]; c != nil {
			m["converter_source"] = c.Types + c.Custom + c.Conv
			m["foreign_package"] = c.Q
		}
		out = append(out, m)
	}
	return out
}

// rcCompileClass names the known classes of uncompilable output (known findings are matched by this key).
func rcCompileClass(m map[string]any) string {
	msg, _ := m["build_output"].(string)
	for _, bc := range buildClasses {
		if bc.re.MatchString(msg) {
			return bc.class
		}
	}
	switch {
	case strings.Contains(msg, "assignment mismatch: 1 variable but") && strings.Contains(msg, "returns 2 values"),
		strings.Contains(msg, "not enough arguments in call to"):
		return "stale-call-of-a-helper-whose-signature-changed"
	}
	return "generated-code-does-not-compile"
}
