package main

import (
	"fmt"
	"os"
	"path/filepath"
	"strings"
	"time"

	"gvh/internal/gvx"
	"gvh/internal/rng"
	"gvh/internal/scratch"
)

// Wave 10, C13: types WITHOUT a declaring package (the universe types error / any / rune / byte, interface literals,
// uintptr, unsafe.Pointer) at every source and target position, crossed with every family of settings being IN EFFECT
// (a well-formed value on the converter comment, on the method comment, or on the command line with -g) - not only the
// malformed values of directivePool. C13 names these types explicitly ("types it cannot convert by itself (uintptr,
// unsafe.Pointer, chan, func, interfaces including the built-in error ...)") and quantifies over all directive texts:
// whatever the setting, the run ends in output or in a diagnostic that names the declaration; never a panic or a hang.
//
// The cross is systematic (every universe type x every position x every setting x every level it is legal at) so that a
// guard which only one setting family bypasses is met in every run, plus a random sample of the wider space (all shapes,
// all counterpart types, several settings at once).

const uniMod = "example.org/c13u"

type uniSetting struct {
	line   string
	conv   bool // legal on the converter comment and with -g
	method bool // legal on a method comment
}

// every family of settings with a WELL-FORMED value that is in effect for the conversion (matching and non-matching
// patterns, each enum action, each flag)
var uniSettings = []uniSetting{
	{"", true, false},
	{"enum:exclude " + uniMod + "/p:Color", true, false},
	{"enum:exclude .*:Unrelated", true, false},
	{"enum:exclude " + uniMod + "/q:.*", true, false},
	{"enum:exclude :Sh.*", true, false},
	{"enum:exclude .*:.*", true, false},
	{"enum no", true, true},
	{"enum yes", true, true},
	{"enum:unknown @ignore", true, true},
	{"enum:unknown @error", true, true},
	{"enum:unknown @panic", true, true},
	{"enum:unknown Red", true, true},
	{"enum:map Red Green", false, true},
	{"enum:map Red @ignore", false, true},
	{"enum:transform regex (.*) $1", false, true},
	{"extend ErrText", true, false},
	{"extend Pass.*", true, false},
	{"extend " + uniMod + "/p:Pass(Err|Any)", true, false},
	{"extend " + uniMod + "/q:.*", true, false},
	{"extend ColorErr ErrColor", true, false},
	{"useUnderlyingTypeMethods", true, true},
	{"skipCopySameType", true, true},
	{"wrapErrors", true, true},
	{"wrapErrorsUsing " + uniMod + "/q", true, true},
	{"ignoreMissing", true, true},
	{"ignoreUnexported", true, true},
	{"matchIgnoreCase", true, true},
	{"useZeroValueOnPointerInconsistency", true, true},
	{"default:update", true, true},
	{"update:ignoreZeroValueField", true, true},
	{"arg:context:regex ^ctx", true, true},
	{"output:format function", true, false},
	{"output:format struct", true, false},
	{"ignore V", false, true},
	{"map V V", false, true},
	{"map V V | ErrText", false, true},
	{"map . V", false, true},
	{"autoMap V", false, true},
	{"default NewErr", false, true},
}

// the types without a declaring package, as they are spelled in package p (which imports unsafe)
var uniTypes = []string{"error", "any", "interface{}", "interface{ Error() string }", "unsafe.Pointer", "uintptr", "rune", "byte"}

// counterpart types: basics, detected enums of this and of another package, named non-enums, named types whose
// underlying type is package-less
var uniOthers = []string{"string", "int", "Color", "q.Color", "Shade", "Plain", "Fail", "Code", "Box", "Handle", "Word", "[]byte", "*int"}

const uniTypesSrc = `package p

import (
	"errors"
	"unsafe"

	"` + uniMod + `/q"
)

type Color int

const (
	Red Color = iota
	Green
)

type Shade string

const (
	Dark  Shade = "dark"
	Light Shade = "light"
)

type Plain int
type Fail interface{ Error() string }
type Code error
type Box any
type Handle unsafe.Pointer
type Word uintptr

func ErrText(e error) string {
	if e == nil {
		return ""
	}
	return e.Error()
}
func PassErr(e error) error                     { return e }
func PassAny(v any) any                         { return v }
func PassPtr(p unsafe.Pointer) unsafe.Pointer   { return p }
func PassFallible(e error) (error, error)       { return e, e }
func ColorErr(c Color) error                    { return errors.New("color") }
func ErrColor(e error) Color                    { return Red }
func NewErr() error                             { return errors.New("new") }

var _ q.Color
`

const uniQSrc = `package q

import "fmt"

type Color int

const (
	Red Color = iota
	Green
)

type Shade string

const (
	Dark  Shade = "dark"
	Light Shade = "light"
)

func ErrToText(e error) string { return fmt.Sprint(e) }
func AnyToAny(v interface{}) interface{} { return v }
func Wrap(name string, err error) error { return fmt.Errorf("%s: %w", name, err) }
`

// uniDecls collects the named struct types the field positions need.
type uniDecls struct {
	names map[string]string
	src   strings.Builder
}

func (d *uniDecls) strct(side, fieldType string) string {
	key := side + "\x00" + fieldType
	if n, ok := d.names[key]; ok {
		return n
	}
	n := fmt.Sprintf("%s%d", side, len(d.names))
	d.names[key] = n
	fmt.Fprintf(&d.src, "type %s struct {\n\tName string\n\tV    %s\n}\n", n, fieldType)
	return n
}

type uniShape struct {
	name string
	wrap func(d *uniDecls, side, x string) string
}

var uniShapes = []uniShape{
	{"direct", func(_ *uniDecls, _, x string) string { return x }},
	{"slice", func(_ *uniDecls, _, x string) string { return "[]" + x }},
	{"pointer", func(_ *uniDecls, _, x string) string { return "*" + x }},
	{"map-value", func(_ *uniDecls, _, x string) string { return "map[string]" + x }},
	{"map-key", func(_ *uniDecls, _, x string) string {
		if strings.HasPrefix(x, "[]") {
			return "map[string]" + x // not comparable
		}
		return "map[" + x + "]bool"
	}},
	{"array", func(_ *uniDecls, _, x string) string { return "[2]" + x }},
	{"field", func(d *uniDecls, side, x string) string { return d.strct(side, x) }},
	{"pointer-to-struct", func(d *uniDecls, side, x string) string { return "*" + d.strct(side, x) }},
	{"pointer-field", func(d *uniDecls, side, x string) string { return d.strct(side, "*"+x) }},
	{"slice-field", func(d *uniDecls, side, x string) string { return d.strct(side, "[]"+x) }},
	{"nested", func(d *uniDecls, side, x string) string { return "[]map[string]*" + d.strct(side, x) }},
	{"chan", func(_ *uniDecls, _, x string) string { return "chan " + x }},
	{"func", func(_ *uniDecls, _, x string) string { return "func() " + x }},
}

type uniConv struct {
	name string
	text string
}

type uniProject struct {
	decls uniDecls
	convs []uniConv
	body  strings.Builder
}

// uniLeftOut: inputs on which the UNCHANGED tree does not meet C13 (see the report of wave 10): a pointer, slice, array or
// map type literal on the target side that spells unsafe.Pointer makes goverter derive a variable name from the type text
// ("pUnsafe.Pointer", "unsafe.PointerList", "mapStringUnsafe.Pointer"); the run ends with a formatting error plus a dump
// of the file that names neither the converter nor the method. They are not generated.
// (Since the repair of D40 — identifiers derived from unsafe.Pointer — they ARE generated: nothing is left out.)
func uniLeftOut(tgt string) bool {
	return false
}

func (p *uniProject) add(convLines, methLines []string, src, tgt string, withErr bool) {
	if uniLeftOut(tgt) {
		return
	}
	name := fmt.Sprintf("U%d", len(p.convs))
	var b strings.Builder
	b.WriteString("// goverter:converter\n")
	for _, l := range convLines {
		if l != "" {
			b.WriteString("// goverter:" + l + "\n")
		}
	}
	b.WriteString("type " + name + " interface {\n")
	for _, l := range methLines {
		if l != "" {
			b.WriteString("\t// goverter:" + l + "\n")
		}
	}
	ret := tgt
	if withErr {
		ret = "(" + tgt + ", error)"
	}
	b.WriteString("\tConvert(source " + src + ") " + ret + "\n}\n\n")
	p.convs = append(p.convs, uniConv{name, b.String()})
	p.body.WriteString(b.String())
}

func (p *uniProject) tree() scratch.Tree {
	return scratch.Tree{
		"go.mod":     "module " + uniMod + "\n\ngo 1.18\n",
		"q/q.go":     uniQSrc,
		"p/types.go": uniTypesSrc + "\n" + p.decls.src.String(),
		"p/conv.go":  "package p\n\nimport (\n\t\"unsafe\"\n\n\t\"" + uniMod + "/q\"\n)\n\nvar _ unsafe.Pointer\nvar _ q.Color\n\n" + p.body.String(),
	}
}

func newUniProject() *uniProject { return &uniProject{decls: uniDecls{names: map[string]string{}}} }

// uniPair is a conversion still to be spelled: the shapes are applied against the declarations of the project it lands in.
type uniPair struct {
	shS, shT uniShape
	a, b     string
	sameSide bool // target struct declared on the source side too: the SAME named struct on both sides when a == b
}

func (pr uniPair) spell(d *uniDecls) (src, tgt string) {
	side := "Dst"
	if pr.sameSide {
		side = "Src"
	}
	return pr.shS.wrap(d, "Src", pr.a), pr.shT.wrap(d, side, pr.b)
}

// uniCorePairs: every package-less type at the source, at the target and on both sides, directly and inside each
// container kind and struct field, against a basic type and a detected enum (thorough: every shape, more counterparts).
func uniCorePairs(thorough bool) []uniPair {
	shapes := map[string]bool{"direct": true, "slice": true, "map-value": true, "field": true}
	others := []string{"string", "Color"}
	types := []string{"error", "any", "interface{ Error() string }", "unsafe.Pointer", "uintptr"}
	if thorough {
		others, types = []string{"string", "Color", "q.Color", "Plain", "Fail", "Code"}, uniTypes
	}
	var out []uniPair
	for _, sh := range uniShapes {
		if !thorough && !shapes[sh.name] {
			continue
		}
		for _, u := range types {
			out = append(out, uniPair{shS: sh, shT: sh, a: u, b: u})
			for oi, o := range others {
				// quick: the package-less type at the source against a basic type, at the target against a detected enum
				if thorough || oi == 0 {
					out = append(out, uniPair{shS: sh, shT: sh, a: u, b: o})
				}
				if thorough || oi == 1 {
					out = append(out, uniPair{shS: sh, shT: sh, a: o, b: u})
				}
			}
		}
	}
	return out
}

// c13UniverseCross is the in-process part; it returns the first internal error (a generated package that does not load).
func c13UniverseCross(e *env, r *rng.R, base string) error {
	type job struct {
		root   string
		global []string
		proj   *uniProject
	}
	var jobs []job
	e.rep.Rule += "; plus (wave 10) types without declaring package (error, any, interface literals, unsafe.Pointer, uintptr, rune, byte) at source, target and both positions, direct and inside slices, maps, pointers, arrays and struct fields, against basics, detected enums and named types, crossed with every settings family being in effect with a well-formed value (enum:exclude matching and not, enum:unknown actions, enum no, extend by name and by regex, useUnderlyingTypeMethods, skipCopySameType, wrapErrors, field settings ...) on the converter comment, the method comment and with -g, in process and through the binary"
	// converters are collected in projects of at most 5000 (one load and one type check each)
	sys := newUniProject()
	flush := func() {
		if len(sys.convs) > 0 {
			jobs = append(jobs, job{root: filepath.Join(base, fmt.Sprintf("uni%d", len(jobs))), proj: sys})
			sys = newUniProject()
		}
	}
	emit := func(cl, ml []string, pr uniPair) {
		src, tgt := pr.spell(&sys.decls)
		sys.add(cl, ml, src, tgt, r.Chance(25))
		if len(sys.convs) >= 5000 {
			flush()
		}
	}
	// (1) the systematic cross with the setting on the converter comment or on the method comment
	for _, pr := range uniCorePairs(e.thorough) {
		for _, s := range uniSettings {
			if s.conv {
				emit([]string{s.line}, nil, pr)
			}
			if s.method {
				emit(nil, []string{s.line}, pr)
			}
		}
	}
	// (2) a random sample of the wide space: every shape (also a different one on each side), every counterpart type,
	// two package-less types against each other, one to three settings at once
	nRandom := 400
	if e.thorough {
		nRandom = 4000 * e.scale
	}
	for i := 0; i < nRandom; i++ {
		u := rng.Pick(r, uniTypes)
		o := rng.Pick(r, uniOthers)
		if r.Chance(30) {
			o = rng.Pick(r, uniTypes)
		}
		pr := uniPair{shS: rng.Pick(r, uniShapes), a: u, b: o}
		pr.shT = pr.shS
		if r.Chance(20) {
			pr.shT = rng.Pick(r, uniShapes)
		}
		if r.Bool() {
			pr.a, pr.b = o, u
		}
		pr.sameSide = r.Chance(10)
		var cl, ml []string
		for k, n := 0, 1+r.Intn(3); k < n; k++ {
			s := rng.Pick(r, uniSettings)
			if s.conv && (!s.method || r.Bool()) {
				cl = append(cl, s.line)
			} else {
				ml = append(ml, s.line)
			}
		}
		emit(cl, ml, pr)
	}
	flush()
	// (3) the same settings given on the command line (-g): plain converters over the core pairs, one load per setting;
	// quick runs a non-matching enum:exclude plus one setting chosen by the seed, thorough all of them
	var globals []string
	for _, s := range uniSettings {
		if s.conv && s.line != "" && !strings.HasPrefix(s.line, "output:") {
			globals = append(globals, s.line)
		}
	}
	if !e.thorough {
		globals = []string{"enum:exclude .*:Unrelated", globals[r.Intn(len(globals))]}
	}
	for gi, g := range globals {
		gp := newUniProject()
		for _, pr := range uniCorePairs(false) {
			src, tgt := pr.spell(&gp.decls)
			gp.add(nil, nil, src, tgt, r.Chance(25))
		}
		jobs = append(jobs, job{root: filepath.Join(base, fmt.Sprintf("unig%d", gi)), global: []string{g}, proj: gp})
	}
	for _, j := range jobs {
		if err := scratch.Write(j.root, j.proj.tree()); err != nil {
			return err
		}
		batch := gvx.RunBatch(j.root, gvx.Options{Patterns: []string{"./p"}, Global: j.global, Constraint: "!goverter", Deadline: 20 * time.Second})
		if batch.DocsErr != nil {
			msg := batch.DocsErr.Error()
			if strings.HasPrefix(msg, "panic") || strings.HasPrefix(msg, "timeout") {
				e.rep.Violation("panic:docs", map[string]any{"project": j.proj.tree(), "error": truncate(msg, 3000), "broken": "C13: panic/timeout while parsing docs"}, false)
				continue
			}
			return fmt.Errorf("c13 universe cross: generated package does not load: %v", truncate(msg, 2000))
		}
		if len(batch.Outcomes) != len(j.proj.convs) {
			return fmt.Errorf("c13 universe cross: %d converters written, %d outcomes", len(j.proj.convs), len(batch.Outcomes))
		}
		srcOf := map[string]string{}
		for _, c := range j.proj.convs {
			srcOf[c.name] = c.text
		}
		e.rep.Eval(len(batch.Outcomes))
		for _, oc := range batch.Outcomes {
			e.rep.Count("universe." + oc.Stage)
			src := srcOf[oc.Raw.InterfaceName]
			e.rep.Nontrivial("universe:" + strings.Join(j.global, " ") + ":" + src)
			switch oc.Stage {
			case "panic", "timeout":
				e.rep.Violation(oc.Stage+":"+panicSite(oc.Err), map[string]any{"converter": src, "global": j.global, "outcome": oc.Stage, "error": truncate(oc.Err, 2500),
					"types":  uniTypesSrc,
					"broken": "C13: goverter panicked or did not terminate on a conversion that involves a type without declaring package (error, any, unsafe.Pointer, ...) while the setting shown was in effect"}, false)
			case "config", "generate":
				if !strings.Contains(oc.Err, "conv.go") && !strings.Contains(oc.Err, "command line") {
					e.rep.Count("universe.diag-without-location")
					e.rep.Violation("diag-without-location", map[string]any{"converter": src, "global": j.global, "error": truncate(oc.Err, 1500),
						"broken": "C13: diagnostic does not name the offending declaration"}, false)
				}
			}
		}
		if !e.thorough {
			_ = os.RemoveAll(j.root)
		}
	}
	return nil
}

// universeHazards: pinned std-only projects for the goverter BINARY (exit status 2 = Go panic), one converter each so that
// a diagnostic of one conversion does not hide the next; crossed with -g settings by the caller.
func universeHazards() []hazard {
	mod := func(body string) scratch.Tree {
		return scratch.Tree{"go.mod": "module example.org/hz\n\ngo 1.18\n", "p/p.go": "package p\n\nimport \"unsafe\"\n\nvar _ unsafe.Pointer\n\ntype Status int\n\nconst (\n\tActive Status = iota\n\tGone\n)\n\n" + body}
	}
	conv := func(s, t string) string {
		return "\n// goverter:converter\ntype C interface {\n\tConvert(source " + s + ") " + t + "\n}\n"
	}
	return []hazard{
		{"universe:error-field", mod("type In struct {\n\tName  string\n\tLevel Status\n\tCause error\n}\ntype Out struct {\n\tName  string\n\tLevel Status\n\tCause error\n}\n" + conv("In", "Out"))},
		{"universe:enum-to-error", mod(conv("Status", "error"))},
		{"universe:error-slice-to-strings", mod("// goverter:variables\nvar (\n\tTexts func(source []error) []string\n)\n")},
		{"universe:any-and-pointer-fields", mod("type In struct {\n\tA any\n\tP unsafe.Pointer\n\tU uintptr\n}\ntype Out struct {\n\tA interface{}\n\tP unsafe.Pointer\n\tU uintptr\n}\n" + conv("*In", "*Out"))},
		{"universe:error-map-extend", mod("func Text(e error) string { return e.Error() }\n\n// goverter:converter\n// goverter:extend Text\ntype C interface {\n\tConvert(source map[Status]error) map[Status]string\n}\n")},
		{"universe:named-error-to-error", mod("type Code error\n" + conv("map[string]Code", "map[string]error"))},
	}
}

var universeHazardGlobals = []string{"", "enum:exclude .*:Unrelated", "enum:exclude example.org/hz/p:Status", "enum:unknown @ignore", "useUnderlyingTypeMethods", "skipCopySameType", "wrapErrors"}
