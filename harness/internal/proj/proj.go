// Package proj renders small goverter projects (scratch modules) from a description.
package proj

import (
	"fmt"
	"path"
	"sort"
	"strings"

	"gvh/internal/scratch"
)

// Conv is one converter declaration (an interface or a variables block with one function variable).
type Conv struct {
	Dir         string   `json:"dir"`  // package directory relative to the module root
	File        string   `json:"file"` // file name inside Dir
	Vars        bool     `json:"variables"`
	Name        string   `json:"name"`
	Lines       []string `json:"lines"`        // converter-level goverter: lines
	MethodLines []string `json:"method_lines"` // lines on the single method / variable
	In          string   `json:"in,omitempty"`
	Out         string   `json:"out,omitempty"`
	// RawBody, when set, replaces the interface body / the var specs (it must include the doc lines it wants).
	RawBody string `json:"raw_body,omitempty"`
	Fault   string `json:"fault"` // "", directive, methoddirective, signature, conversion, marker, compile
	Extra   string `json:"extra,omitempty"`
	// Style of every goverter comment of this converter: "" = `// goverter:x`, "directive" = `//goverter:x`
	// (the directive spelling, which go/ast's CommentGroup.Text drops), "tab" = `//\tgoverter:x`
	Style string `json:"style,omitempty"`
}

// pre is the comment opener of a converter's goverter lines.
func (c *Conv) pre() string {
	switch c.Style {
	case "directive":
		return "//goverter:"
	case "tab":
		return "//\tgoverter:"
	}
	return "// goverter:"
}

type Project struct {
	Module string       `json:"module"`
	Convs  []*Conv      `json:"converters"`
	Extra  scratch.Tree `json:"extra_files,omitempty"`
	// Types overrides the default type declarations of every package (without package clause).
	Types string `json:"types,omitempty"`
}

// WideTypes is a variant of the default types with two more fields on In and Out.
const WideTypes = `
type In struct {
	V  int
	W  string
	X1 int
	X2 int
}

type Out struct {
	V  int
	W  string
	X1 int
	X2 int
}

type OutBad struct {
	V string
}
`

const typesSrc = `
type In struct {
	V int
	W string
}

type Out struct {
	V int
	W string
}

type OutBad struct {
	V string
}

type Wide struct {
	V int
	W string
	X1 int
	X2 int
}

type Color int

const (
	Red Color = iota
	Green
	Blue
)

type Colour int

const (
	ColourRed Colour = iota
	ColourGreen
	ColourBlue
)

type Deep struct {
	Items []In
	ByKey map[string]*In
	One   *In
	Tags  []string
}

type DeepOut struct {
	Items []Out
	ByKey map[string]*Out
	One   *Out
	Tags  []string
}
`

// Tree renders the project.
func (p *Project) Tree() scratch.Tree {
	t := scratch.Tree{"go.mod": "module " + p.Module + "\n\ngo 1.18\n"}
	dirs := map[string]bool{}
	files := map[string][]*Conv{}
	var order []string
	for _, c := range p.Convs {
		dirs[c.Dir] = true
		k := c.Dir + "/" + c.File
		if _, ok := files[k]; !ok {
			order = append(order, k)
		}
		files[k] = append(files[k], c)
	}
	for d := range dirs {
		ts := typesSrc
		if p.Types != "" {
			ts = p.Types
		}
		t[d+"/types.go"] = "package " + path.Base(d) + "\n" + ts
	}
	sort.Strings(order)
	for _, k := range order {
		var b strings.Builder
		cs := files[k]
		b.WriteString("package " + path.Base(cs[0].Dir) + "\n\n")
		for _, c := range cs {
			in, out := c.In, c.Out
			if in == "" {
				in = "In"
			}
			if out == "" {
				out = "Out"
			}
			sig := fmt.Sprintf("(source %s) %s", in, out)
			lines := append([]string{}, c.Lines...)
			mlines := append([]string{}, c.MethodLines...)
			switch c.Fault {
			case "directive":
				lines = append(lines, "bogusSetting yes")
			case "methoddirective":
				mlines = append(mlines, "map")
			case "signature":
				sig = fmt.Sprintf("(a %s, b %s) %s", in, in, out)
			case "conversion":
				sig = fmt.Sprintf("(source %s) OutBad", in)
			case "marker":
				b.WriteString(c.pre() + "converter\nconst Marked" + c.Name + " = 1\n\n")
			case "compile":
				b.WriteString("var _ Undefined" + c.Name + "\n\n")
			case "pkgconflict":
				// three converters share one output file: the first names no package, the other two demand DIFFERENT names
				shared := []string{"output:file ../shared/conflict.go", "output:package " + p.Module + "/shared"}
				lines = append(lines, shared...)
				for _, x := range [][2]string{{"Xeta", "foo"}, {"Yamma", "bar"}} {
					b.WriteString(c.pre() + "converter\n" + c.pre() + shared[0] + "\n" + c.pre() + shared[1] + ":" + x[1] + "\n")
					b.WriteString("type " + c.Name + x[0] + " interface {\n\tConvert" + sig + "\n}\n\n")
				}
			}
			if c.Vars {
				b.WriteString(c.pre() + "variables\n")
				for _, l := range lines {
					b.WriteString(c.pre() + l + "\n")
				}
				b.WriteString("var (\n")
				if c.RawBody != "" {
					b.WriteString(c.RawBody + ")\n\n" + c.Extra)
					continue
				}
				for _, l := range mlines {
					b.WriteString("\t" + c.pre() + l + "\n")
				}
				b.WriteString("\t" + c.Name + " func" + sig + "\n)\n\n")
			} else {
				b.WriteString(c.pre() + "converter\n")
				for _, l := range lines {
					b.WriteString(c.pre() + l + "\n")
				}
				b.WriteString("type " + c.Name + " interface {\n")
				if c.RawBody != "" {
					b.WriteString(c.RawBody + "}\n\n" + c.Extra)
					continue
				}
				for _, l := range mlines {
					b.WriteString("\t" + c.pre() + l + "\n")
				}
				b.WriteString("\tConvert" + sig + "\n}\n\n")
			}
			b.WriteString(c.Extra)
		}
		t[k] = b.String()
	}
	for k, v := range p.Extra {
		t[k] = v
	}
	return t
}

// Faulty reports whether any converter of the project is faulty.
func (p *Project) Faulty() bool {
	for _, c := range p.Convs {
		if c.Fault != "" {
			return true
		}
	}
	return false
}
