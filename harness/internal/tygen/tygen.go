// Package tygen generates Go type declarations and (source, target) type pairs for converter methods.
package tygen

import (
	"fmt"
	"strings"

	"gvh/internal/rng"
)

// T is a Go type expression.
type T interface{ Src() string }

type Basic struct{ Name string }
type Named struct{ Name string } // declared in the generated package (or qualified: "q.Name")
type Ptr struct{ Elem T }
type Slice struct{ Elem T }
type Array struct {
	N    int
	Elem T
}
type Map struct{ Key, Val T }
type Field struct {
	Name string
	Type T
}
type Struct struct{ Fields []Field }
type Raw struct{ Text string } // func, chan, interface literals etc.

func (b Basic) Src() string { return b.Name }
func (n Named) Src() string { return n.Name }
func (p Ptr) Src() string   { return "*" + p.Elem.Src() }
func (s Slice) Src() string { return "[]" + s.Elem.Src() }
func (a Array) Src() string { return fmt.Sprintf("[%d]%s", a.N, a.Elem.Src()) }
func (m Map) Src() string   { return "map[" + m.Key.Src() + "]" + m.Val.Src() }
func (r Raw) Src() string   { return r.Text }
func (s Struct) Src() string {
	var b strings.Builder
	b.WriteString("struct {")
	for _, f := range s.Fields {
		b.WriteString(" " + f.Name + " " + f.Type.Src() + ";")
	}
	b.WriteString(" }")
	return b.String()
}

// Decl is a named type declaration; Consts are enum members (name -> literal).
type Decl struct {
	Name   string
	Under  T
	Consts []Const
}

type Const struct{ Name, Value string }

type Gen struct {
	R     *rng.R
	Decls []*Decl
	n     int
	// knobs
	Basics        []string
	MaxDepth      int
	AllowOdd      bool // func/chan/interface/uintptr/unsafe.Pointer leaves
	AllowArray    bool
	NoEmptyStruct bool // zero-size types make addresses meaningless (Go aliases them)
}

func New(r *rng.R) *Gen {
	return &Gen{R: r, Basics: []string{"int", "string", "bool", "int64", "float64", "uint8"}, MaxDepth: 3, AllowArray: true}
}

func (g *Gen) fresh(prefix string) string { g.n++; return fmt.Sprintf("%s%d", prefix, g.n) }

func (g *Gen) Declare(prefix string, under T) Named {
	d := &Decl{Name: g.fresh(prefix), Under: under}
	g.Decls = append(g.Decls, d)
	return Named{d.Name}
}

func (g *Gen) basic() T { return Basic{rng.Pick(g.R, g.Basics)} }

var oddLeaves = []string{"func(int) string", "chan int", "<-chan string", "interface{ M() }", "any", "error", "uintptr", "func()", "chan<- bool", "complex128"}

// Type generates a random type of at most the given depth.
func (g *Gen) Type(depth int) T {
	r := g.R
	if depth <= 0 {
		if g.AllowOdd && r.Chance(15) {
			return Raw{rng.Pick(r, oddLeaves)}
		}
		if r.Chance(20) {
			return g.Declare("N", g.basic())
		}
		return g.basic()
	}
	switch k := r.Intn(13); {
	case k < 2:
		return g.basic()
	case k < 4:
		return Ptr{g.Type(depth - 1)}
	case k < 6:
		return Slice{g.Type(depth - 1)}
	case k == 6 && g.AllowArray:
		return Array{1 + r.Intn(3), g.Type(depth - 1)}
	case k < 8:
		return Map{g.keyType(), g.Type(depth - 1)}
	case k < 11:
		return g.Declare("S", g.structType(depth-1))
	case k == 11:
		return g.structType(depth - 1)
	default:
		return g.Declare("N", g.Type(depth-1))
	}
}

func (g *Gen) keyType() T {
	// comparable keys that are or contain pointers: the key conversion must copy them too
	if g.R.Chance(18) {
		switch g.R.Intn(3) {
		case 0:
			return Ptr{Basic{rng.Pick(g.R, []string{"int", "string"})}}
		case 1:
			return g.Declare("KP", Struct{[]Field{{Name: "P", Type: Ptr{Basic{"string"}}}, {Name: "N", Type: Basic{"int"}}}})
		default:
			if g.AllowArray {
				return Array{2, Ptr{Basic{"int"}}}
			}
			return Ptr{Basic{"int"}}
		}
	}
	if g.R.Chance(25) {
		return g.Declare("K", Basic{rng.Pick(g.R, []string{"string", "int"})})
	}
	return Basic{rng.Pick(g.R, []string{"string", "int", "int64", "bool"})}
}

func (g *Gen) structType(depth int) Struct {
	n := g.R.Intn(4)
	if (g.NoEmptyStruct || g.R.Chance(85)) && n == 0 {
		n = 1
	}
	s := Struct{}
	for i := 0; i < n; i++ {
		s.Fields = append(s.Fields, Field{Name: fmt.Sprintf("F%d", i), Type: g.Type(depth)})
	}
	return s
}

// Mirror derives a target type that the rule cascade can (mostly) reach from src: the same shape over freshly
// declared named types, with occasional perturbations chosen by the knobs.
type MirrorOpts struct {
	PtrFlip   int  // percent: add/remove a pointer level
	KindFlip  int  // percent: change a basic kind (makes the pair unconvertible)
	DropField int  // percent: drop a source-side field in the target (fine) or add one (missing source)
	ReCase    int  // percent: change the case of a field name
	KeepArray bool // arrays stay arrays (map keys must stay comparable)
	Literal   int  // percent: named slice/map/pointer type <-> its identical unnamed literal
	ArrayFlip int  // percent: slice<->array
}

func (g *Gen) Mirror(src T, o MirrorOpts, depth int) T {
	r := g.R
	if depth > 8 {
		return src
	}
	if r.Chance(o.PtrFlip) {
		if p, ok := src.(Ptr); ok && r.Bool() {
			return g.Mirror(p.Elem, o, depth+1)
		}
		return Ptr{g.Mirror(src, MirrorOpts{KindFlip: o.KindFlip}, depth+1)}
	}
	switch t := src.(type) {
	case Basic:
		if r.Chance(o.KindFlip) {
			return Basic{rng.Pick(r, g.Basics)}
		}
		if r.Chance(10) {
			return g.Declare("N", t)
		}
		return t
	case Named:
		d := g.find(t.Name)
		if d == nil {
			return t
		}
		if len(d.Consts) > 0 {
			return t
		}
		if r.Chance(15) {
			return t // identical named type on both sides
		}
		if o.Literal > 0 && r.Chance(o.Literal) {
			switch d.Under.(type) {
			case Slice, Map, Ptr:
				return d.Under // the identical unnamed type literal on the other side
			}
		}
		return g.Declare("T", g.Mirror(d.Under, o, depth+1))
	case Ptr:
		return Ptr{g.Mirror(t.Elem, o, depth+1)}
	case Slice:
		if o.Literal > 0 && r.Chance(o.Literal) {
			return g.Declare("L", t) // a named type with the identical literal as its underlying type
		}
		if r.Chance(o.ArrayFlip) {
			return Array{2, g.Mirror(t.Elem, o, depth+1)}
		}
		return Slice{g.Mirror(t.Elem, o, depth+1)}
	case Array:
		if o.KeepArray {
			return Array{t.N, g.Mirror(t.Elem, o, depth+1)}
		}
		if r.Chance(100 - o.ArrayFlip) {
			return Slice{g.Mirror(t.Elem, o, depth+1)}
		}
		return Array{t.N, g.Mirror(t.Elem, o, depth+1)}
	case Map:
		return Map{g.Mirror(t.Key, MirrorOpts{KindFlip: o.KindFlip, KeepArray: true}, depth+1), g.Mirror(t.Val, o, depth+1)}
	case Struct:
		out := Struct{}
		for _, f := range t.Fields {
			if r.Chance(o.DropField) {
				continue
			}
			name := f.Name
			if r.Chance(o.ReCase) {
				name = strings.ToUpper(name[:1]) + strings.ToLower(name[1:])
			}
			out.Fields = append(out.Fields, Field{Name: name, Type: g.Mirror(f.Type, o, depth+1)})
		}
		if r.Chance(o.DropField) {
			out.Fields = append(out.Fields, Field{Name: g.fresh("Extra"), Type: g.basic()})
		}
		return out
	}
	return src
}

// Under resolves named types to their underlying type.
func (g *Gen) Under(t T) T {
	for i := 0; i < 50; i++ {
		n, ok := t.(Named)
		if !ok {
			return t
		}
		d := g.find(n.Name)
		if d == nil {
			return t
		}
		t = d.Under
	}
	return t
}

func (g *Gen) find(name string) *Decl {
	for _, d := range g.Decls {
		if d.Name == name {
			return d
		}
	}
	return nil
}

// Source renders all declarations.
func (g *Gen) Source() string {
	var b strings.Builder
	for _, d := range g.Decls {
		b.WriteString("type " + d.Name + " " + d.Under.Src() + "\n")
		if len(d.Consts) > 0 {
			b.WriteString("const (\n")
			for _, c := range d.Consts {
				b.WriteString("\t" + c.Name + " " + d.Name + " = " + c.Value + "\n")
			}
			b.WriteString(")\n")
		}
		b.WriteString("\n")
	}
	return b.String()
}

// StructFields returns the fields of t if it is a struct or a named struct.
func (g *Gen) StructFields(t T) []Field {
	switch x := t.(type) {
	case Struct:
		return x.Fields
	case Named:
		if d := g.find(x.Name); d != nil {
			return g.StructFields(d.Under)
		}
	case Ptr:
		return g.StructFields(x.Elem)
	}
	return nil
}

// Enum declares an enum type with the given members (values are iota-like unless given).
func (g *Gen) Enum(prefix, under string, members []Const) Named {
	d := &Decl{Name: g.fresh(prefix), Under: Basic{under}, Consts: nil}
	for _, m := range members {
		d.Consts = append(d.Consts, Const{Name: d.Name + m.Name, Value: m.Value})
	}
	g.Decls = append(g.Decls, d)
	return Named{d.Name}
}

// Small enumerates all types of constructor depth <= depth over a reduced alphabet; named types are declared on demand.
func (g *Gen) Small(depth int) []T {
	base := []T{Basic{"int"}, Basic{"string"}, Basic{"int64"}}
	base = append(base, g.Declare("NI", Basic{"int"}), g.Declare("NS", Struct{[]Field{{"F0", Basic{"int"}}}}))
	all := append([]T{}, base...)
	prev := base
	for d := 0; d < depth; d++ {
		var next []T
		for _, t := range prev {
			next = append(next, Ptr{t}, Slice{t}, Array{2, t}, Map{Basic{"string"}, t}, Struct{[]Field{{"F0", t}}})
		}
		all = append(all, next...)
		prev = next
	}
	return all
}
