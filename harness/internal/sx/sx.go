// Package sx is the S-expression reader/printer of the gvh <-> gvdriver line protocol.
package sx

import (
	"fmt"
	"strconv"
	"strings"
)

type Kind int

const (
	KAtom Kind = iota
	KStr
	KList
)

type Node struct {
	Kind Kind
	S    string
	L    []*Node
}

func A(s string) *Node              { return &Node{Kind: KAtom, S: s} }
func S(s string) *Node              { return &Node{Kind: KStr, S: s} }
func I(i int) *Node                 { return A(strconv.Itoa(i)) }
func B(b bool) *Node                { return A(strconv.FormatBool(b)) }
func L(xs ...*Node) *Node           { return &Node{Kind: KList, L: xs} }
func H(h string, xs ...*Node) *Node { return &Node{Kind: KList, L: append([]*Node{A(h)}, xs...)} }
func Strs(h string, xs []string) *Node {
	n := H(h)
	for _, x := range xs {
		n.L = append(n.L, S(x))
	}
	return n
}

func (n *Node) Add(xs ...*Node) *Node { n.L = append(n.L, xs...); return n }

func escape(b *strings.Builder, s string) {
	b.WriteByte('"')
	for _, r := range s {
		switch {
		case r == '"':
			b.WriteString(`\"`)
		case r == '\\':
			b.WriteString(`\\`)
		case r == '\n':
			b.WriteString(`\n`)
		case r == '\r':
			b.WriteString(`\r`)
		case r == '\t':
			b.WriteString(`\t`)
		case r < 32 || r == 127:
			fmt.Fprintf(b, `\u{%x}`, r)
		default:
			b.WriteRune(r)
		}
	}
	b.WriteByte('"')
}

func (n *Node) write(b *strings.Builder) {
	switch n.Kind {
	case KAtom:
		b.WriteString(n.S)
	case KStr:
		escape(b, n.S)
	case KList:
		b.WriteByte('(')
		for i, x := range n.L {
			if i > 0 {
				b.WriteByte(' ')
			}
			x.write(b)
		}
		b.WriteByte(')')
	}
}

func (n *Node) String() string {
	var b strings.Builder
	n.write(&b)
	return b.String()
}

type parser struct {
	s []rune
	i int
}

func (p *parser) ws() {
	for p.i < len(p.s) && (p.s[p.i] == ' ' || p.s[p.i] == '\n' || p.s[p.i] == '\t' || p.s[p.i] == '\r') {
		p.i++
	}
}

func (p *parser) one() (*Node, error) {
	p.ws()
	if p.i >= len(p.s) {
		return nil, fmt.Errorf("eof")
	}
	switch c := p.s[p.i]; {
	case c == '(':
		p.i++
		n := &Node{Kind: KList}
		for {
			p.ws()
			if p.i >= len(p.s) {
				return nil, fmt.Errorf("unterminated list")
			}
			if p.s[p.i] == ')' {
				p.i++
				return n, nil
			}
			x, err := p.one()
			if err != nil {
				return nil, err
			}
			n.L = append(n.L, x)
		}
	case c == ')':
		return nil, fmt.Errorf("unexpected )")
	case c == '"':
		p.i++
		var b strings.Builder
		for {
			if p.i >= len(p.s) {
				return nil, fmt.Errorf("unterminated string")
			}
			c := p.s[p.i]
			p.i++
			if c == '"' {
				return S(b.String()), nil
			}
			if c != '\\' {
				b.WriteRune(c)
				continue
			}
			if p.i >= len(p.s) {
				return nil, fmt.Errorf("bad escape")
			}
			e := p.s[p.i]
			p.i++
			switch e {
			case 'n':
				b.WriteByte('\n')
			case 'r':
				b.WriteByte('\r')
			case 't':
				b.WriteByte('\t')
			case '"':
				b.WriteByte('"')
			case '\\':
				b.WriteByte('\\')
			case 'u':
				j := p.i + 1
				for j < len(p.s) && p.s[j] != '}' {
					j++
				}
				v, err := strconv.ParseUint(string(p.s[p.i+1:j]), 16, 32)
				if err != nil {
					return nil, err
				}
				b.WriteRune(rune(v))
				p.i = j + 1
			default:
				return nil, fmt.Errorf("bad escape %c", e)
			}
		}
	default:
		j := p.i
		for j < len(p.s) && !strings.ContainsRune("() \n\t\r\"", p.s[j]) {
			j++
		}
		n := A(string(p.s[p.i:j]))
		p.i = j
		return n, nil
	}
}

func Parse(s string) (*Node, error) {
	p := &parser{s: []rune(s)}
	return p.one()
}

// Head returns the leading atom of a list form.
func (n *Node) Head() string {
	if n != nil && n.Kind == KList && len(n.L) > 0 && n.L[0].Kind == KAtom {
		return n.L[0].S
	}
	return ""
}

func (n *Node) Args() []*Node {
	if n != nil && n.Kind == KList && len(n.L) > 0 {
		return n.L[1:]
	}
	return nil
}
