// Package rep collects what a campaign covered and what it found, and writes the
// campaign summary consumed by bin/check (which merges it into evidence/<id>.json).
package rep

import (
	"crypto/sha256"
	"encoding/hex"
	"encoding/json"
	"fmt"
	"os"
	"path/filepath"
	"sort"
	"sync"
)

type Finding struct {
	ID       string `json:"id"`
	Property string `json:"property"`
	What     string `json:"what"`
	// Match is the classification key a case must produce to be this finding.
	Match string `json:"match"`
	Fixed string `json:"fixed,omitempty"`
}

type Report struct {
	mu         sync.Mutex
	Property   string
	Tier       string
	Seed       uint64
	ReplayDir  string
	Evals      int
	distinct   map[string]struct{}
	Samples    []any
	Violations []string // replay paths
	Known      map[string]int
	Dist       map[string]int
	perClass   map[string]int
	Rule       string
	Notes      []string
	findings   []Finding
	Exhaustive bool
}

func New(property, tier string, seed uint64, replayDir, findingsFile string) *Report {
	r := &Report{Property: property, Tier: tier, Seed: seed, ReplayDir: replayDir,
		distinct: map[string]struct{}{}, Known: map[string]int{}, Dist: map[string]int{}}
	if b, err := os.ReadFile(findingsFile); err == nil {
		var doc struct {
			Findings []Finding `json:"findings"`
		}
		if err := json.Unmarshal(b, &doc); err == nil {
			r.findings = doc.Findings
		}
	}
	return r
}

func (r *Report) Eval(n int) { r.mu.Lock(); r.Evals += n; r.mu.Unlock() }

// Nontrivial records a distinct non-trivial case by its canonical key.
func (r *Report) Nontrivial(key string) {
	h := sha256.Sum256([]byte(key))
	r.mu.Lock()
	r.distinct[string(h[:12])] = struct{}{}
	r.mu.Unlock()
}

func (r *Report) Count(bucket string) { r.mu.Lock(); r.Dist[bucket]++; r.mu.Unlock() }

func (r *Report) Sample(v any) {
	r.mu.Lock()
	if len(r.Samples) < 6 {
		r.Samples = append(r.Samples, v)
	}
	r.mu.Unlock()
}

// KnownFinding returns the listed, unfixed finding whose match key equals key (for this property).
func (r *Report) KnownFinding(key string) *Finding {
	for i := range r.findings {
		f := &r.findings[i]
		if f.Property == r.Property && f.Match == key && f.Fixed == "" {
			return f
		}
	}
	return nil
}

// Violation writes a replay file and prints the VIOLATION line, unless classKey names a listed known finding.
func (r *Report) Violation(classKey string, replay map[string]any, noInput bool) {
	if classKey != "" {
		if f := r.KnownFinding(classKey); f != nil {
			r.mu.Lock()
			r.Known[f.ID]++
			first := r.Known[f.ID] == 1
			r.mu.Unlock()
			if first {
				fmt.Printf("KNOWN-FINDING: property=%s %s (%s)\n", r.Property, f.What, f.ID)
			}
			return
		}
	}
	replay["property"] = r.Property
	replay["class"] = classKey
	replay["seed"] = r.Seed
	replay["tier"] = r.Tier
	b, _ := json.MarshalIndent(replay, "", " ")
	h := sha256.Sum256(b)
	_ = os.MkdirAll(r.ReplayDir, 0o755)
	path := filepath.Join(r.ReplayDir, hex.EncodeToString(h[:6])+".json")
	r.mu.Lock()
	dup := false
	for _, v := range r.Violations {
		if v == path {
			dup = true
		}
	}
	n := len(r.Violations)
	if !dup {
		r.Violations = append(r.Violations, path)
	}
	r.mu.Unlock()
	if r.perClass == nil {
		r.perClass = map[string]int{}
	}
	r.mu.Lock()
	r.perClass[classKey]++
	k := r.perClass[classKey]
	r.mu.Unlock()
	// at most 2 replay files per class and 12 per run; every violation is still counted
	if dup || k > 2 || n >= 12 {
		return
	}
	_ = os.WriteFile(path, b, 0o644)
	suffix := ""
	if noInput {
		suffix = " no-failing-input-found"
	}
	fmt.Printf("VIOLATION property=%s replay=%s%s\n", r.Property, path, suffix)
}

func (r *Report) Note(f string, a ...any) {
	r.mu.Lock()
	r.Notes = append(r.Notes, fmt.Sprintf(f, a...))
	r.mu.Unlock()
}

// Write stores the campaign summary.
func (r *Report) Write(path string) error {
	r.mu.Lock()
	defer r.mu.Unlock()
	keys := make([]string, 0, len(r.Known))
	for k := range r.Known {
		keys = append(keys, k)
	}
	sort.Strings(keys)
	doc := map[string]any{
		"property":            r.Property,
		"tier":                r.Tier,
		"seed":                r.Seed,
		"evaluations":         r.Evals,
		"distinct_nontrivial": len(r.distinct),
		"samples":             r.Samples,
		"violations":          r.Violations,
		"known_findings_hit":  r.Known,
		"distribution":        r.Dist,
		"rule":                r.Rule,
		"notes":               r.Notes,
		"exhaustive":          r.Exhaustive,
	}
	b, _ := json.MarshalIndent(doc, "", " ")
	_ = os.MkdirAll(filepath.Dir(path), 0o755)
	return os.WriteFile(path, b, 0o644)
}
