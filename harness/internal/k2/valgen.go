package k2

import (
	"fmt"
	"go/types"
	"strings"

	"gvh/internal/rng"
	"gvh/internal/sx"
)

// ValGen generates value descriptions (the `(b ..) (ptr L v) ...` language) for Go types.
type ValGen struct {
	R      *rng.R
	label  int
	cells  map[string][]string // type string -> labels of cells built so far in this value (for sharing)
	Poison map[string]bool     // basic payloads that make fallible custom functions fail
	// Mode: 0 = zero/nil everywhere, 1 = non-nil and minimal, 2 = non-nil containers with two elements whose inner
	// pointers alternate between nil and non-nil (nil leaves inside live containers), 3 = every slice and map non-nil and
	// EMPTY (pointers non-nil), 4.. = random
	Mode     int
	alt      int
	MaxDepth int
	Share    int // percent chance to reuse an existing cell of the same type
	// Single: every pointer non-nil, two elements per slice and map, no poison payload anywhere; PoisonOne then poisons
	// exactly one int or string leaf (a single-fault value: which leaf fails is known, whatever the map order)
	Single bool
	leaves []*sx.Node
}

// PoisonOne turns the pick-th int/string leaf generated so far into the payload fallible functions fail on.
func (g *ValGen) PoisonOne(pick int) {
	if len(g.leaves) == 0 {
		return
	}
	n := g.leaves[pick%len(g.leaves)]
	if n.L[0].S == "bs" {
		n.L[1].S = "poison"
	} else {
		n.L[1].S = "13"
	}
	for _, l := range g.leaves {
		l.L[0].S = "b"
	}
	g.leaves = nil
}

func (g *ValGen) fresh() string { g.label++; return fmt.Sprint(g.label) }

var intPool = map[types.BasicKind][]string{
	types.Int:     {"0", "1", "-1", "13", "42", "9223372036854775807", "-9223372036854775808"},
	types.Int8:    {"0", "1", "-1", "13", "127", "-128"},
	types.Int16:   {"0", "1", "-1", "13", "32767", "-32768"},
	types.Int32:   {"0", "1", "-1", "13", "2147483647", "-2147483648"},
	types.Int64:   {"0", "1", "-1", "13", "9223372036854775807", "-9223372036854775808"},
	types.Uint:    {"0", "1", "13", "18446744073709551615"},
	types.Uint8:   {"0", "1", "13", "255"},
	types.Uint16:  {"0", "1", "13", "65535"},
	types.Uint32:  {"0", "1", "13", "4294967295"},
	types.Uint64:  {"0", "1", "13", "18446744073709551615"},
	types.Uintptr: {"0", "1", "13"},
}

func (g *ValGen) basic(b *types.Basic, named *types.Named) *sx.Node {
	if g.Mode == 0 {
		switch {
		case b.Info()&types.IsString != 0:
			return sx.H("b", sx.S(""))
		case b.Info()&types.IsBoolean != 0:
			return sx.H("b", sx.S("false"))
		default:
			return sx.H("b", sx.S("0"))
		}
	}
	if g.Single && (named == nil || named.Obj().Pkg() == nil || !hasConsts(named)) {
		switch {
		case b.Info()&types.IsString != 0:
			n := sx.H("bs", sx.S(rng.Pick(g.R, []string{"a", "héllo wörld", "x y", "b"})))
			g.leaves = append(g.leaves, n)
			return n
		case b.Info()&types.IsInteger != 0:
			n := sx.H("bi", sx.S(rng.Pick(g.R, []string{"1", "2", "42", "7"})))
			g.leaves = append(g.leaves, n)
			return n
		}
	}
	// enum-like named types: prefer declared members, sometimes a non-member
	if named != nil && named.Obj().Pkg() != nil {
		var members []string
		scope := named.Obj().Pkg().Scope()
		for _, n := range scope.Names() {
			if c, ok := scope.Lookup(n).(*types.Const); ok && types.Identical(c.Type(), named) {
				members = append(members, c.Val().ExactString())
			}
		}
		if len(members) > 0 && g.R.Chance(80) {
			m := rng.Pick(g.R, members)
			if b.Info()&types.IsString != 0 {
				// ExactString quotes strings
				var s string
				fmt.Sscanf(m, "%q", &s)
				return sx.H("b", sx.S(s))
			}
			return sx.H("b", sx.S(m))
		}
	}
	switch {
	case b.Info()&types.IsString != 0:
		return sx.H("b", sx.S(rng.Pick(g.R, []string{"", "a", "poison", "héllo wörld", "x y"})))
	case b.Info()&types.IsBoolean != 0:
		return sx.H("b", sx.S(rng.Pick(g.R, []string{"true", "false"})))
	case b.Info()&types.IsFloat != 0:
		return sx.H("b", sx.S(rng.Pick(g.R, []string{"0", "1", "-1.5", "13", "0.25"})))
	case b.Info()&types.IsComplex != 0:
		return sx.H("b", sx.S("0"))
	}
	if pool, ok := intPool[b.Kind()]; ok {
		return sx.H("b", sx.S(rng.Pick(g.R, pool)))
	}
	return sx.H("b", sx.S("0"))
}

func hasConsts(named *types.Named) bool {
	scope := named.Obj().Pkg().Scope()
	for _, n := range scope.Names() {
		if c, ok := scope.Lookup(n).(*types.Const); ok && types.Identical(c.Type(), named) {
			return true
		}
	}
	return false
}

// ForgetCells makes the values generated from now on share nothing with those generated before (labels stay unique).
func (g *ValGen) ForgetCells() { g.cells = map[string][]string{} }

// Value generates one value of type t.
func (g *ValGen) Value(t types.Type) *sx.Node {
	if g.cells == nil {
		g.cells = map[string][]string{}
	}
	if g.MaxDepth == 0 {
		g.MaxDepth = 6
	}
	return g.val(t, 0)
}

func (g *ValGen) val(t types.Type, depth int) *sx.Node {
	t = types.Unalias(t)
	var named *types.Named
	if n, ok := t.(*types.Named); ok {
		named = n
	}
	nilable := g.Mode == 0 || depth >= g.MaxDepth || (g.Mode >= 4 && !g.Single && g.R.Chance(22))
	if g.Mode == 2 && depth >= 1 && depth < g.MaxDepth {
		if _, isPtr := t.Underlying().(*types.Pointer); isPtr {
			g.alt++
			nilable = g.alt%2 == 1
		}
	}
	reuse := func(kind string) *sx.Node {
		ls := g.cells[t.String()]
		if g.Mode >= 4 && !g.Single && len(ls) > 0 && g.R.Chance(g.Share) {
			_ = kind
			return sx.H("ref", sx.A(rng.Pick(g.R, ls)))
		}
		return nil
	}
	switch u := t.Underlying().(type) {
	case *types.Basic:
		return g.basic(u, named)
	case *types.Pointer:
		if nilable {
			return sx.A("nil")
		}
		if n := reuse("ptr"); n != nil {
			return n
		}
		l := g.fresh()
		inner := g.val(u.Elem(), depth+1)
		g.cells[t.String()] = append(g.cells[t.String()], l)
		return sx.H("ptr", sx.A(l), inner)
	case *types.Slice:
		if nilable {
			return sx.A("nil")
		}
		if n := reuse("sl"); n != nil {
			return n
		}
		l := g.fresh()
		n := 1
		if g.Mode == 2 {
			n = 2
		}
		if g.Mode == 3 {
			n = 0
		}
		if g.Mode >= 4 {
			n = g.R.Intn(4)
		}
		if g.Single {
			n = 2
		}
		out := sx.H("sl", sx.A(l))
		for i := 0; i < n; i++ {
			out.Add(g.val(u.Elem(), depth+1))
		}
		if n > 0 {
			g.cells[t.String()] = append(g.cells[t.String()], l)
		}
		return out
	case *types.Array:
		out := sx.H("arr")
		for i := int64(0); i < u.Len(); i++ {
			out.Add(g.val(u.Elem(), depth+1))
		}
		return out
	case *types.Map:
		if nilable {
			return sx.A("nil")
		}
		l := g.fresh()
		n := 1
		if g.Mode == 2 {
			n = 2
		}
		if g.Mode == 3 {
			n = 0
		}
		if g.Mode >= 4 {
			n = g.R.Intn(3)
		}
		if g.Single {
			n = 2
		}
		out := sx.H("mp", sx.A(l))
		seen := map[string]bool{}
		hasPoison := false
		for i := 0; i < n; i++ {
			save := g.Mode
			if g.Mode == 0 {
				g.Mode = 1
			}
			// no back-references inside keys: two keys holding the same pointer could be one and the same key
			saveShare := g.Share
			g.Share = 0
			nLeaves := len(g.leaves)
			k := g.val(u.Key(), depth+1)
			g.Share = saveShare
			g.Mode = save
			// entries are compared in the order of their keys' printed form without addresses: keep those distinct
			ek := erasedText(k)
			if seen[ek] {
				g.leaves = g.leaves[:nLeaves]
				continue
			}
			seen[ek] = true
			v := g.val(u.Elem(), depth+1)
			// Go's map iteration order decides which failing entry surfaces first: at most one poisoned entry per map
			if poisoned(k) || poisoned(v) {
				if hasPoison {
					continue
				}
				hasPoison = true
			}
			out.Add(sx.H("e", k, v))
		}
		return out
	case *types.Struct:
		out := sx.H("st")
		for i := 0; i < u.NumFields(); i++ {
			out.Add(sx.H("f", sx.S(u.Field(i).Name()), g.val(u.Field(i).Type(), depth+1)))
		}
		return out
	}
	return sx.A("nil")
}

// erasedText prints a value description without the labels of its reference cells.
func erasedText(n *sx.Node) string {
	if n == nil {
		return ""
	}
	if len(n.L) == 0 {
		return n.String()
	}
	var b strings.Builder
	b.WriteString("(")
	for i, c := range n.L {
		if i == 1 && (n.Head() == "ptr" || n.Head() == "sl" || n.Head() == "mp") {
			continue
		}
		if n.Head() == "ref" && i == 1 {
			b.WriteString(" ref")
			continue
		}
		b.WriteString(" " + erasedText(c))
	}
	b.WriteString(")")
	return b.String()
}

func poisoned(n *sx.Node) bool {
	s := n.String()
	return strings.Contains(s, "\"13\"") || strings.Contains(s, "\"poison\"")
}
