// Package drv runs the Lean model driver (gvdriver) over a batch of requests.
package drv

import (
	"bufio"
	"bytes"
	"fmt"
	"os"
	"os/exec"
	"path/filepath"
	"runtime"
	"strings"
	"sync"

	"gvh/internal/sx"
)

func driverPath() string {
	if p := os.Getenv("GVDRIVER"); p != "" {
		return p
	}
	exe, _ := os.Executable()
	return filepath.Join(filepath.Dir(filepath.Dir(exe)), "lean", ".lake", "build", "bin", "gvdriver")
}

// Run sends every request (one line each) to gvdriver and returns the answers in order.
// Requests are split over several driver processes.
func Run(reqs []*sx.Node) ([]*sx.Node, error) {
	n := len(reqs)
	out := make([]*sx.Node, n)
	if n == 0 {
		return out, nil
	}
	workers := runtime.NumCPU()
	if workers > 16 {
		workers = 16
	}
	if n < workers*4 {
		workers = 1
	}
	chunk := (n + workers - 1) / workers
	var wg sync.WaitGroup
	errs := make([]error, workers)
	for w := 0; w < workers; w++ {
		lo, hi := w*chunk, (w+1)*chunk
		if hi > n {
			hi = n
		}
		if lo >= hi {
			continue
		}
		wg.Add(1)
		go func(w, lo, hi int) {
			defer wg.Done()
			var in bytes.Buffer
			for _, r := range reqs[lo:hi] {
				in.WriteString(r.String())
				in.WriteByte('\n')
			}
			cmd := exec.Command(driverPath())
			cmd.Stdin = &in
			var stdout, stderr bytes.Buffer
			cmd.Stdout = &stdout
			cmd.Stderr = &stderr
			if err := cmd.Run(); err != nil {
				errs[w] = fmt.Errorf("gvdriver: %v: %s", err, stderr.String())
				return
			}
			sc := bufio.NewScanner(&stdout)
			sc.Buffer(make([]byte, 1<<20), 1<<28)
			i := lo
			for sc.Scan() {
				line := strings.TrimSpace(sc.Text())
				if line == "" {
					continue
				}
				node, err := sx.Parse(line)
				if err != nil {
					errs[w] = fmt.Errorf("gvdriver answer %q: %v", line, err)
					return
				}
				if i >= hi {
					errs[w] = fmt.Errorf("gvdriver: too many answers")
					return
				}
				// (r id answer)
				if node.Head() == "r" && len(node.L) == 3 {
					out[i] = node.L[2]
				} else {
					out[i] = node
				}
				i++
			}
			if i != hi {
				errs[w] = fmt.Errorf("gvdriver: %d answers for %d requests (stderr: %s)", i-lo, hi-lo, stderr.String())
			}
		}(w, lo, hi)
	}
	wg.Wait()
	for _, e := range errs {
		if e != nil {
			return nil, e
		}
	}
	return out, nil
}
