// Package lift reads the Go code goverter emitted and computes, by symbolic execution of the
// statements of every generated function, the term the function returns (the language of
// lean/Gv/Model/Sym.lean).  No normalisation happens here: the Lean driver normalises this term and
// the model's own term with one function and compares them.
//
// Anything outside the statement forms goverter is known to emit makes the function "unliftable"
// (reported as such, never as a difference).
package lift

import (
	"fmt"
	"go/ast"
	"go/parser"
	"go/token"
	"sort"
	"strconv"
	"strings"

	"gvh/internal/sx"
)

type unliftable struct{ why string }

func bail(format string, a ...any) { panic(unliftable{fmt.Sprintf(format, a...)}) }

type lifter struct {
	methods map[string]bool
	customs map[string]bool
	recv    string
}

type scope struct {
	l        *lifter
	vars     map[string]*cell
	idents   map[string]bool // names that are identifiers holding a private copy (params, locals, range variables)
	depth    int
	nres     int
	pend     map[string]*sx.Node // variable -> (try …) node still waiting for its wrap
	lastDecl string
	result   *sx.Node
	update   string // name of the update target parameter ("" when the function returns the target)
}

func h(head string, xs ...*sx.Node) *sx.Node { return sx.H(head, xs...) }

func (s *scope) child() *scope {
	c := *s
	c.vars = make(map[string]*cell, len(s.vars))
	for k, v := range s.vars {
		c.vars[k] = v.clone()
	}
	c.idents = make(map[string]bool, len(s.idents))
	for k, v := range s.idents {
		c.idents[k] = v
	}
	c.pend = map[string]*sx.Node{}
	c.result = nil
	return &c
}

// Functions lifts every function of the emitted files. The result maps function name to term or to
// (unliftable "why").
func Functions(files map[string][]byte, customs map[string]bool) (map[string]*sx.Node, error) {
	l := &lifter{methods: map[string]bool{}, customs: customs, recv: "c"}
	type fn struct {
		name string
		typ  *ast.FuncType
		body *ast.BlockStmt
	}
	var fns []fn
	var paths []string
	for p := range files {
		paths = append(paths, p)
	}
	sort.Strings(paths)
	for _, path := range paths {
		f, err := parser.ParseFile(token.NewFileSet(), path, files[path], parser.SkipObjectResolution)
		if err != nil {
			return nil, err
		}
		for _, d := range f.Decls {
			fd, ok := d.(*ast.FuncDecl)
			if !ok || fd.Body == nil {
				continue
			}
			if fd.Name.Name == "init" && fd.Recv == nil {
				for _, st := range fd.Body.List {
					as, ok := st.(*ast.AssignStmt)
					if !ok || len(as.Lhs) != 1 || len(as.Rhs) != 1 {
						continue
					}
					fl, ok := as.Rhs[0].(*ast.FuncLit)
					if !ok {
						continue
					}
					name := ""
					switch x := as.Lhs[0].(type) {
					case *ast.SelectorExpr:
						name = x.Sel.Name
					case *ast.Ident:
						name = x.Name
					}
					fns = append(fns, fn{name, fl.Type, fl.Body})
				}
				continue
			}
			if fd.Recv != nil && len(fd.Recv.List) == 1 && len(fd.Recv.List[0].Names) == 1 {
				l.recv = fd.Recv.List[0].Names[0].Name
			}
			fns = append(fns, fn{fd.Name.Name, fd.Type, fd.Body})
		}
	}
	for _, f := range fns {
		l.methods[f.name] = true
	}
	out := map[string]*sx.Node{}
	for _, f := range fns {
		out[f.name] = l.function(f.typ, f.body)
	}
	return out, nil
}

func (l *lifter) function(typ *ast.FuncType, body *ast.BlockStmt) (res *sx.Node) {
	defer func() {
		if r := recover(); r != nil {
			if u, ok := r.(unliftable); ok {
				res = h("unliftable", sx.S(u.why))
				return
			}
			panic(r)
		}
	}()
	s := &scope{l: l, vars: map[string]*cell{}, idents: map[string]bool{}, pend: map[string]*sx.Node{}}
	for _, f := range typ.Params.List {
		for _, n := range f.Names {
			s.vars[n.Name] = leaf(h("p", sx.A(n.Name)))
			s.idents[n.Name] = true
			if n.Name == "target" {
				s.update = n.Name
			}
		}
	}
	if typ.Results != nil {
		s.nres = len(typ.Results.List)
	}
	// an update function returns nothing or only an error: its value is what it leaves in *target
	isUpdate := s.update != "" && (s.nres == 0 || (s.nres == 1 && isIdent(typ.Results.List[0].Type, "error")))
	if !isUpdate {
		s.update = ""
	}
	s.block(body.List)
	if isUpdate {
		return s.vars[s.update].term(nil)
	}
	if s.result == nil {
		bail("no return")
	}
	return s.result
}

func isIdent(e ast.Expr, name string) bool {
	id, ok := e.(*ast.Ident)
	return ok && id.Name == name
}

// block executes statements; it reports whether the block ended with a (non-error) return.
func (s *scope) block(list []ast.Stmt) {
	for i := 0; i < len(list); i++ {
		s.stmt(list[i])
	}
}

func (s *scope) stmt(st ast.Stmt) {
	switch x := st.(type) {
	case *ast.DeclStmt:
		gd, ok := x.Decl.(*ast.GenDecl)
		if !ok || gd.Tok != token.VAR {
			bail("declaration %T", x.Decl)
		}
		for _, sp := range gd.Specs {
			vs := sp.(*ast.ValueSpec)
			if len(vs.Values) != 0 {
				bail("var with value")
			}
			for _, n := range vs.Names {
				s.vars[n.Name] = leaf(h("zero"))
				s.idents[n.Name] = true
				s.lastDecl = n.Name
			}
		}
	case *ast.AssignStmt:
		s.assign(x)
	case *ast.IfStmt:
		s.ifStmt(x)
	case *ast.ForStmt:
		s.forStmt(x)
	case *ast.RangeStmt:
		s.rangeStmt(x)
	case *ast.SwitchStmt:
		s.switchStmt(x)
	case *ast.ReturnStmt:
		s.returnStmt(x)
	case *ast.EmptyStmt:
	default:
		bail("statement %T", st)
	}
}

func (s *scope) assign(x *ast.AssignStmt) {
	// x, err := call(...)
	if len(x.Lhs) == 2 && len(x.Rhs) == 1 && x.Tok == token.DEFINE {
		v, ok1 := x.Lhs[0].(*ast.Ident)
		e, ok2 := x.Lhs[1].(*ast.Ident)
		call, ok3 := x.Rhs[0].(*ast.CallExpr)
		if !ok1 || !ok2 || !ok3 || e.Name != "err" {
			bail("two-value assignment")
		}
		c := s.call(call)
		if c.Head() != "call" {
			bail("two-value assignment from %s", c.Head())
		}
		try := h("try", append([]*sx.Node{c.L[1], h("w", sx.A("pending"))}, c.L[2:]...)...)
		s.vars[v.Name] = leaf(try)
		s.idents[v.Name] = true
		s.pend["err"] = try
		s.lastDecl = v.Name
		return
	}
	if len(x.Lhs) != 1 || len(x.Rhs) != 1 {
		bail("assignment shape")
	}
	if id, ok := x.Lhs[0].(*ast.Ident); ok && id.Name == "_" {
		return
	}
	val := s.ev(x.Rhs[0])
	if x.Tok == token.DEFINE {
		id, ok := x.Lhs[0].(*ast.Ident)
		if !ok {
			bail("define of non-identifier")
		}
		s.vars[id.Name] = leaf(val)
		s.idents[id.Name] = true
		s.lastDecl = id.Name
		return
	}
	if x.Tok != token.ASSIGN {
		bail("assignment operator %s", x.Tok)
	}
	s.write(x.Lhs[0], val)
}

// ---- the symbolic store: per variable a tree of writes -------------------------------------------------

// cell is the value of a place: `whole` (when the place was assigned as a whole; otherwise the value is inherited from
// the enclosing place) overlaid by the writes to its components, in order of first write.
type cell struct {
	whole *sx.Node
	kids  []*edge
}

type edge struct {
	kind string   // f | at | deref
	key  *sx.Node // field name / index term / nil
	c    *cell
}

type step struct {
	kind string
	key  *sx.Node
}

func leaf(t *sx.Node) *cell { return &cell{whole: t} }

func (c *cell) clone() *cell {
	n := &cell{whole: c.whole}
	for _, k := range c.kids {
		n.kids = append(n.kids, &edge{k.kind, k.key, k.c.clone()})
	}
	return n
}

func sameKey(a, b *sx.Node) bool {
	if a == nil || b == nil {
		return a == b
	}
	return a.String() == b.String()
}

func (c *cell) find(st step) *edge {
	for _, k := range c.kids {
		if k.kind == st.kind && sameKey(k.key, st.key) {
			return k
		}
	}
	return nil
}

// proj reads one component of a term (with the obvious simplifications: reading what was just written, reading a
// component of a zero value).
func proj(kind string, t, key *sx.Node) *sx.Node {
	switch kind {
	case "f":
		for t.Head() == "setf" && t.L[2].S != key.S {
			t = t.L[1]
		}
		if t.Head() == "setf" {
			return t.L[3]
		}
		if t.Head() == "zero" {
			return t
		}
		return h("sel", t, key)
	case "at":
		if t.Head() == "setat" && sameKey(t.L[2], key) {
			return t.L[3]
		}
		if t.Head() == "make" {
			return h("zero")
		}
		return h("at", t, key)
	default:
		if t.Head() == "ref" {
			return t.L[1]
		}
		if t.Head() == "setderef" {
			return t.L[2]
		}
		return h("deref", t)
	}
}

func set(kind string, t, key, v *sx.Node) *sx.Node {
	switch kind {
	case "f":
		return h("setf", t, key, v)
	case "at":
		return h("setat", t, key, v)
	}
	return h("setderef", t, v)
}

// term renders a cell; inherited is the value the place has through its parent (nil for a variable).
func (c *cell) term(inherited *sx.Node) *sx.Node {
	start := inherited
	if c.whole != nil {
		start = c.whole
	}
	cur := start
	for _, k := range c.kids {
		cur = set(k.kind, cur, k.key, k.c.term(proj(k.kind, start, k.key)))
	}
	return cur
}

func (c *cell) start(inherited *sx.Node) *sx.Node {
	if c.whole != nil {
		return c.whole
	}
	return inherited
}

// place splits an addressable expression into its root variable and the steps from it.
func (s *scope) place(e ast.Expr) (string, []step, bool) {
	switch x := e.(type) {
	case *ast.Ident:
		if _, ok := s.vars[x.Name]; ok {
			return x.Name, nil, true
		}
	case *ast.ParenExpr:
		return s.place(x.X)
	case *ast.SelectorExpr:
		if r, st, ok := s.place(x.X); ok {
			return r, append(st, step{"f", sx.S(x.Sel.Name)}), true
		}
	case *ast.IndexExpr:
		if r, st, ok := s.place(x.X); ok {
			return r, append(st, step{"at", s.ev(x.Index)}), true
		}
	case *ast.StarExpr:
		if r, st, ok := s.place(x.X); ok {
			return r, append(st, step{"deref", nil}), true
		}
	}
	return "", nil, false
}

func (s *scope) read(root string, steps []step) *sx.Node {
	cur := s.vars[root]
	var inh *sx.Node
	for i, st := range steps {
		k := cur.find(st)
		if k == nil {
			t := cur.term(inh)
			for _, r := range steps[i:] {
				t = proj(r.kind, t, r.key)
			}
			return t
		}
		inh = proj(st.kind, cur.start(inh), st.key)
		cur = k.c
	}
	return cur.term(inh)
}

// write stores val at the place lv.
func (s *scope) write(lv ast.Expr, val *sx.Node) {
	root, steps, ok := s.place(lv)
	if !ok {
		bail("write to %T", lv)
	}
	if len(steps) == 0 {
		s.vars[root] = leaf(val)
		return
	}
	cur := s.vars[root]
	for i, st := range steps {
		k := cur.find(st)
		if k == nil {
			k = &edge{st.kind, st.key, &cell{}}
			cur.kids = append(cur.kids, k)
		}
		if i == len(steps)-1 {
			k.c = leaf(val)
		}
		cur = k.c
	}
}

// mergeIf folds what a conditional body did to a place back into the state before it.
func mergeIf(c *sx.Node, old, nv *cell, oldInh, nvInh *sx.Node) *cell {
	if nv.whole != old.whole {
		o, n := old.term(oldInh), nv.term(nvInh)
		if same(o, n) {
			return leaf(o)
		}
		return leaf(h("if", c, n, o))
	}
	out := &cell{whole: old.whole}
	oStart, nStart := old.start(oldInh), nv.start(nvInh)
	for _, k := range nv.kids {
		oi, ni := proj(k.kind, oStart, k.key), proj(k.kind, nStart, k.key)
		if ok := old.find(step{k.kind, k.key}); ok != nil {
			out.kids = append(out.kids, &edge{k.kind, k.key, mergeIf(c, ok.c, k.c, oi, ni)})
		} else {
			out.kids = append(out.kids, &edge{k.kind, k.key, mergeIf(c, &cell{}, k.c, oi, ni)})
		}
	}
	return out
}

// mergeLoop: a container written at the loop's own index becomes the loop term; everything else is descended into.
func mergeLoop(kind string, d int, src *sx.Node, old, nv *cell, oldInh, nvInh *sx.Node) *cell {
	ds := strconv.Itoa(d)
	collapse := nv.whole != old.whole
	for _, k := range nv.kids {
		if k.kind == "at" && (mentions(k.key, ds) || !mentionsAny(k.key)) {
			collapse = true
		}
	}
	if collapse {
		o, n := old.term(oldInh), nv.term(nvInh)
		if same(o, n) {
			return leaf(o)
		}
		return leaf(h(kind, sx.I(d), src, n))
	}
	out := &cell{whole: old.whole}
	oStart, nStart := old.start(oldInh), nv.start(nvInh)
	for _, k := range nv.kids {
		oi, ni := proj(k.kind, oStart, k.key), proj(k.kind, nStart, k.key)
		if ok := old.find(step{k.kind, k.key}); ok != nil {
			out.kids = append(out.kids, &edge{k.kind, k.key, mergeLoop(kind, d, src, ok.c, k.c, oi, ni)})
		} else {
			out.kids = append(out.kids, &edge{k.kind, k.key, mergeLoop(kind, d, src, &cell{}, k.c, oi, ni)})
		}
	}
	return out
}

func same(a, b *sx.Node) bool { return a == b || a.String() == b.String() }

// mentions reports whether t contains the loop variables of depth d.
func mentions(t *sx.Node, d string) bool {
	if t == nil || t.Kind != sx.KList {
		return false
	}
	if len(t.L) == 2 && t.L[0].Kind == sx.KAtom && (t.L[0].S == "i" || t.L[0].S == "k" || t.L[0].S == "v") && t.L[1].S == d {
		return true
	}
	for _, x := range t.L {
		if mentions(x, d) {
			return true
		}
	}
	return false
}

func mentionsAny(t *sx.Node) bool {
	if t == nil || t.Kind != sx.KList {
		return false
	}
	if len(t.L) == 2 && t.L[0].Kind == sx.KAtom && (t.L[0].S == "i" || t.L[0].S == "k" || t.L[0].S == "v") {
		return true
	}
	for _, x := range t.L {
		if mentionsAny(x) {
			return true
		}
	}
	return false
}

func (s *scope) cond(e ast.Expr) *sx.Node {
	switch x := e.(type) {
	case *ast.ParenExpr:
		return s.cond(x.X)
	case *ast.BinaryExpr:
		switch x.Op {
		case token.LAND:
			return h("and", s.cond(x.X), s.cond(x.Y))
		case token.NEQ:
			return h("nz", s.ev(x.X))
		}
	}
	bail("condition")
	return nil
}

// merge folds the variables changed in a branch back into s under condition c.
func (s *scope) merge(c *sx.Node, br *scope) {
	for k, old := range s.vars {
		if nv, ok := br.vars[k]; ok {
			s.vars[k] = mergeIf(c, old, nv, nil, nil)
		}
	}
}

func (s *scope) ifStmt(x *ast.IfStmt) {
	if x.Init != nil {
		bail("if with init")
	}
	// if err != nil { return …, wrap(err) }
	if be, ok := x.Cond.(*ast.BinaryExpr); ok && be.Op == token.NEQ && isIdent(be.X, "err") && isIdent(be.Y, "nil") {
		try := s.pend["err"]
		if try == nil || len(x.Body.List) != 1 {
			bail("error check without call")
		}
		ret, ok := x.Body.List[0].(*ast.ReturnStmt)
		if !ok || len(ret.Results) == 0 {
			bail("error check without return")
		}
		try.L[2] = s.wrapOf(ret.Results[len(ret.Results)-1])
		delete(s.pend, "err")
		return
	}
	c := s.cond(x.Cond)
	br := s.child()
	br.block(x.Body.List)
	if br.result != nil {
		bail("return inside a conditional")
	}
	if x.Else != nil {
		// if c { A } else { B }: the state after B plays the part of the state before the statement
		eb, ok := x.Else.(*ast.BlockStmt)
		if !ok {
			bail("else if")
		}
		el := s.child()
		el.block(eb.List)
		if el.result != nil {
			bail("return inside a conditional")
		}
		for k := range s.vars {
			if nv, ok := el.vars[k]; ok {
				s.vars[k] = nv
			}
		}
	}
	s.merge(c, br)
}

func (s *scope) forStmt(x *ast.ForStmt) {
	// for i := 0; i < len(S); i++ { … }
	init, ok := x.Init.(*ast.AssignStmt)
	if !ok || len(init.Lhs) != 1 || init.Tok != token.DEFINE {
		bail("for init")
	}
	iv, ok := init.Lhs[0].(*ast.Ident)
	if !ok {
		bail("for index")
	}
	be, ok := x.Cond.(*ast.BinaryExpr)
	if !ok || be.Op != token.LSS || !isIdent(be.X, iv.Name) {
		bail("for condition")
	}
	lc, ok := be.Y.(*ast.CallExpr)
	if !ok || !isIdent(lc.Fun, "len") || len(lc.Args) != 1 {
		bail("for bound")
	}
	if inc, ok := x.Post.(*ast.IncDecStmt); !ok || inc.Tok != token.INC || !isIdent(inc.X, iv.Name) {
		bail("for post")
	}
	src := s.ev(lc.Args[0])
	d := s.depth
	br := s.child()
	br.depth = d + 1
	br.vars[iv.Name] = leaf(h("i", sx.I(d)))
	br.idents[iv.Name] = true
	br.block(x.Body.List)
	if br.result != nil {
		bail("return inside a loop")
	}
	for k, old := range s.vars {
		if nv, ok := br.vars[k]; ok {
			s.vars[k] = mergeLoop("for", d, src, old, nv, nil, nil)
		}
	}
}

func (s *scope) rangeStmt(x *ast.RangeStmt) {
	kv, ok1 := x.Key.(*ast.Ident)
	vv, ok2 := x.Value.(*ast.Ident)
	if !ok1 || !ok2 || x.Tok != token.DEFINE {
		bail("range shape")
	}
	src := s.ev(x.X)
	d := s.depth
	br := s.child()
	br.depth = d + 1
	br.vars[kv.Name] = leaf(h("k", sx.I(d)))
	br.vars[vv.Name] = leaf(h("v", sx.I(d)))
	br.idents[kv.Name], br.idents[vv.Name] = true, true
	br.block(x.Body.List)
	if br.result != nil {
		bail("return inside a loop")
	}
	for k, old := range s.vars {
		if nv, ok := br.vars[k]; ok {
			s.vars[k] = mergeLoop("range", d, src, old, nv, nil, nil)
		}
	}
}

func (s *scope) switchStmt(x *ast.SwitchStmt) {
	if x.Init != nil || x.Tag == nil {
		bail("switch shape")
	}
	tag := s.ev(x.Tag)
	// the variable the cases assign
	target := ""
	for _, c := range x.Body.List {
		for _, st := range c.(*ast.CaseClause).Body {
			if as, ok := st.(*ast.AssignStmt); ok && len(as.Lhs) == 1 && as.Tok == token.ASSIGN {
				if id, ok := as.Lhs[0].(*ast.Ident); ok {
					target = id.Name
				}
			}
		}
	}
	if target == "" {
		target = s.lastDecl
	}
	oldCell, ok := s.vars[target]
	if !ok {
		bail("switch without a target variable")
	}
	old := oldCell.term(nil)
	sw := h("switch", tag)
	for _, c := range x.Body.List {
		cc := c.(*ast.CaseClause)
		var val *sx.Node = old
		for _, st := range cc.Body {
			switch y := st.(type) {
			case *ast.AssignStmt:
				if len(y.Lhs) != 1 || !isIdent(y.Lhs[0], target) || len(y.Rhs) != 1 {
					bail("case assignment")
				}
				val = h("lit", sx.S(lastName(y.Rhs[0])))
			case *ast.ExprStmt:
				call, ok := y.X.(*ast.CallExpr)
				if !ok || !isIdent(call.Fun, "panic") {
					bail("case expression")
				}
				val = h("panic")
			case *ast.ReturnStmt:
				if len(y.Results) == 0 {
					bail("case return")
				}
				val = h("fail", s.wrapOf(y.Results[len(y.Results)-1]))
			default:
				bail("case statement %T", st)
			}
		}
		if cc.List == nil {
			sw.Add(h("default", val))
		} else {
			if len(cc.List) != 1 {
				bail("case list")
			}
			sw.Add(h("case", sx.S(lastName(cc.List[0])), val))
		}
	}
	s.vars[target] = leaf(sw)
}

func lastName(e ast.Expr) string {
	switch x := e.(type) {
	case *ast.Ident:
		return x.Name
	case *ast.SelectorExpr:
		return x.Sel.Name
	case *ast.ParenExpr:
		return lastName(x.X)
	}
	bail("name expected, got %T", e)
	return ""
}

func (s *scope) returnStmt(x *ast.ReturnStmt) {
	if s.update != "" {
		// `return nil` at the end of an update function
		return
	}
	switch len(x.Results) {
	case 1:
		if call, ok := x.Results[0].(*ast.CallExpr); ok && s.nres == 2 {
			// delegation to a function that returns (T, error)
			c := s.call(call)
			if c.Head() != "call" {
				bail("delegating return")
			}
			s.result = h("try", append([]*sx.Node{c.L[1], h("w", sx.A("none"))}, c.L[2:]...)...)
			return
		}
		s.result = s.ev(x.Results[0])
	case 2:
		if !isIdent(x.Results[1], "nil") {
			bail("return with a non-nil error outside an error check")
		}
		s.result = s.ev(x.Results[0])
	default:
		bail("return shape")
	}
}

// wrapOf describes how the returned error expression wraps `err` (or the enum error).
func (s *scope) wrapOf(e ast.Expr) *sx.Node {
	if isIdent(e, "err") {
		return h("w", sx.A("none"))
	}
	call, ok := e.(*ast.CallExpr)
	if !ok {
		bail("error expression %T", e)
	}
	sel, ok := call.Fun.(*ast.SelectorExpr)
	if !ok {
		bail("error expression call")
	}
	pkg, _ := sel.X.(*ast.Ident)
	if pkg != nil && pkg.Name == "fmt" && sel.Sel.Name == "Errorf" && len(call.Args) >= 2 {
		lit, ok := call.Args[0].(*ast.BasicLit)
		if !ok {
			bail("Errorf format")
		}
		f, _ := strconv.Unquote(lit.Value)
		switch {
		case strings.HasPrefix(f, "unexpected enum element"):
			return h("w", sx.A("none"))
		case strings.HasPrefix(f, "error setting field ") && strings.HasSuffix(f, ": %w") && len(call.Args) == 2:
			inner := s.wrapOf(call.Args[1])
			if inner.String() != "(w none)" {
				bail("nested wrap")
			}
			return h("w", sx.A("field"), sx.S(strings.TrimSuffix(strings.TrimPrefix(f, "error setting field "), ": %w")))
		case f == "error setting index %d: %w" && len(call.Args) == 3:
			inner := s.wrapOf(call.Args[2])
			if inner.String() != "(w none)" {
				bail("nested wrap")
			}
			return h("w", sx.A("index"), s.ev(call.Args[1]))
		}
		bail("Errorf format %q", f)
	}
	if sel.Sel.Name == "Wrap" && len(call.Args) >= 1 {
		inner := s.wrapOf(call.Args[0])
		if inner.String() != "(w none)" {
			bail("nested wrap")
		}
		w := h("w", sx.A("using"))
		for _, a := range call.Args[1:] {
			ec, ok := a.(*ast.CallExpr)
			if !ok || len(ec.Args) != 1 {
				bail("wrap element")
			}
			es, ok := ec.Fun.(*ast.SelectorExpr)
			if !ok {
				bail("wrap element")
			}
			switch es.Sel.Name {
			case "Field":
				lit, ok := ec.Args[0].(*ast.BasicLit)
				if !ok {
					bail("Field argument")
				}
				f, _ := strconv.Unquote(lit.Value)
				w.Add(h("Field", sx.S(f)))
			case "Index", "Key":
				w.Add(h(es.Sel.Name, s.ev(ec.Args[0])))
			default:
				bail("wrap element %s", es.Sel.Name)
			}
		}
		return w
	}
	bail("error expression")
	return nil
}

func pkgName(e ast.Expr) string {
	if id, ok := e.(*ast.Ident); ok {
		return id.Name
	}
	return "?"
}

func (s *scope) ev(e ast.Expr) *sx.Node {
	switch x := e.(type) {
	case *ast.Ident:
		if v, ok := s.vars[x.Name]; ok {
			return v.term(nil)
		}
		switch x.Name {
		case "nil":
			return h("zero")
		case "true", "false":
			return h("lit", sx.S(x.Name))
		}
		if x.Name == s.l.recv {
			return h("self")
		}
		// a package-level name of the output package (an enum member)
		return h("lit", sx.S(x.Name))
	case *ast.ParenExpr:
		return s.ev(x.X)
	case *ast.BasicLit:
		return h("lit", sx.S(x.Value))
	case *ast.StarExpr:
		if r, st, ok := s.place(e); ok {
			return s.read(r, st)
		}
		return proj("deref", s.ev(x.X), nil)
	case *ast.SelectorExpr:
		if r, st, ok := s.place(e); ok {
			return s.read(r, st)
		}
		if id, ok := x.X.(*ast.Ident); ok {
			if _, known := s.vars[id.Name]; !known && id.Name != s.l.recv {
				return h("lit", sx.S(x.Sel.Name)) // pkg.Name
			}
		}
		return proj("f", s.ev(x.X), sx.S(x.Sel.Name))
	case *ast.IndexExpr:
		if r, st, ok := s.place(e); ok {
			return s.read(r, st)
		}
		return proj("at", s.ev(x.X), s.ev(x.Index))
	case *ast.UnaryExpr:
		if x.Op != token.AND {
			bail("unary %s", x.Op)
		}
		if id, ok := x.X.(*ast.Ident); ok && s.idents[id.Name] {
			return h("ref", s.ev(x.X))
		}
		return h("refsrc", s.ev(x.X))
	case *ast.CallExpr:
		return s.call(x)
	case *ast.CompositeLit:
		if len(x.Elts) == 0 {
			return h("zero")
		}
	}
	bail("expression %T", e)
	return nil
}

func (s *scope) args(list []ast.Expr) []*sx.Node {
	var out []*sx.Node
	for _, a := range list {
		v := s.ev(a)
		if v.Head() == "self" {
			continue
		}
		out = append(out, v)
	}
	return out
}

func (s *scope) call(x *ast.CallExpr) *sx.Node {
	switch f := x.Fun.(type) {
	case *ast.Ident:
		switch {
		case f.Name == "make" && len(x.Args) == 2:
			lc, ok := x.Args[1].(*ast.CallExpr)
			if !ok || !isIdent(lc.Fun, "len") || len(lc.Args) != 1 {
				bail("make length")
			}
			return h("make", s.ev(lc.Args[0]))
		case s.l.methods[f.Name]:
			return h("call", append([]*sx.Node{h("m", sx.S(f.Name))}, s.args(x.Args)...)...)
		case s.l.customs[f.Name]:
			return h("call", append([]*sx.Node{h("f", sx.S(f.Name))}, s.args(x.Args)...)...)
		}
		if len(x.Args) == 1 {
			return h("cast", s.ev(x.Args[0]))
		}
		bail("call of %s", f.Name)
	case *ast.SelectorExpr:
		if id, ok := f.X.(*ast.Ident); ok {
			if id.Name == s.l.recv {
				if _, shadow := s.vars[id.Name]; !shadow {
					return h("call", append([]*sx.Node{h("m", sx.S(f.Sel.Name))}, s.args(x.Args)...)...)
				}
			}
			if _, known := s.vars[id.Name]; !known {
				// pkg.Name(…): a generated function, a custom function, or a conversion
				switch {
				case s.l.methods[f.Sel.Name] && !s.l.customs[f.Sel.Name]:
					return h("call", append([]*sx.Node{h("m", sx.S(f.Sel.Name))}, s.args(x.Args)...)...)
				case s.l.customs[f.Sel.Name]:
					return h("call", append([]*sx.Node{h("f", sx.S(f.Sel.Name))}, s.args(x.Args)...)...)
				}
				if len(x.Args) == 1 {
					return h("cast", s.ev(x.Args[0]))
				}
				bail("call of %s.%s", id.Name, f.Sel.Name)
			}
		}
		// a method of a source value
		return h("call", append([]*sx.Node{h("sm", sx.S(f.Sel.Name)), s.ev(f.X)}, s.args(x.Args)...)...)
	case *ast.ArrayType, *ast.StarExpr, *ast.MapType, *ast.ParenExpr, *ast.FuncType, *ast.InterfaceType, *ast.StructType, *ast.ChanType:
		if len(x.Args) == 1 {
			return h("cast", s.ev(x.Args[0]))
		}
	}
	bail("call shape %T", x.Fun)
	return nil
}
