package gvx

import (
	"fmt"
	"go/types"
	"runtime/debug"
	"sync"
	"time"

	"github.com/jmattheis/goverter/comments"
	"github.com/jmattheis/goverter/config"
	"github.com/jmattheis/goverter/generator"
	"golang.org/x/tools/go/packages"
)

// ConvOutcome is what goverter did with one converter.
type ConvOutcome struct {
	Raw   config.RawConverter
	Conv  *config.Converter
	Stage string // config | generate | ok | panic | timeout
	Err   string
	Files map[string][]byte
}

type Batch struct {
	Root     string
	DocsErr  error
	LoadErr  error
	Outcomes []*ConvOutcome
	Pkgs     map[string]*packages.Package // by package path, loaded by the harness itself (independent of goverter)
}

type Options struct {
	Patterns   []string
	Global     []string
	Tags       string
	Constraint string
	Deadline   time.Duration
}

// implMu serialises every in-process call into the implementation: goverter is a command line tool and promises
// nothing about concurrent use of its packages; package-level state in it must not be able to crash the harness.
var implMu sync.Mutex

func guarded(deadline time.Duration, f func() (map[string][]byte, error)) (files map[string][]byte, err error, stage string) {
	implMu.Lock()
	defer implMu.Unlock()
	type res struct {
		files map[string][]byte
		err   error
		pan   string
	}
	ch := make(chan res, 1)
	go func() {
		defer func() {
			if r := recover(); r != nil {
				ch <- res{pan: fmt.Sprintf("%v\n%s", r, debug.Stack())}
			}
		}()
		f, e := f()
		ch <- res{files: f, err: e}
	}()
	select {
	case r := <-ch:
		if r.pan != "" {
			return nil, fmt.Errorf("%s", r.pan), "panic"
		}
		if r.err != nil {
			return nil, r.err, "generate"
		}
		return r.files, nil, "ok"
	case <-time.After(deadline):
		return nil, fmt.Errorf("no result after %s", deadline), "timeout"
	}
}

// RunBatch loads the module once and produces one outcome per converter.
func RunBatch(root string, o Options) *Batch {
	if o.Tags == "" {
		o.Tags = "goverter"
	}
	if o.Deadline == 0 {
		o.Deadline = 30 * time.Second
	}
	if len(o.Patterns) == 0 {
		o.Patterns = []string{"./..."}
	}
	b := &Batch{Root: root, Pkgs: map[string]*packages.Package{}}
	cfg := &packages.Config{Mode: packages.NeedName | packages.NeedTypes | packages.NeedTypesInfo | packages.NeedSyntax | packages.NeedFiles, Dir: root,
		BuildFlags: []string{"-tags", o.Tags}}
	pkgs, err := packages.Load(cfg, o.Patterns...)
	if err != nil {
		b.LoadErr = err
	}
	for _, p := range pkgs {
		b.Pkgs[p.PkgPath] = p
	}
	var raws []config.RawConverter
	_, derr, dstage := guarded(o.Deadline, func() (map[string][]byte, error) {
		var e error
		raws, e = comments.ParseDocs(comments.ParseDocsConfig{PackagePattern: o.Patterns, WorkingDir: root, BuildTags: o.Tags})
		return nil, e
	})
	if dstage != "ok" {
		b.DocsErr = fmt.Errorf("%s: %v", dstage, derr)
		if dstage == "generate" {
			b.DocsErr = derr
		}
		return b
	}
	raw := &config.Raw{Converters: raws, Global: config.RawLines{Lines: o.Global, Location: "command line (-g, -global)"}, WorkDir: root, BuildTags: o.Tags,
		OuputBuildConstraint: o.Constraint}
	var convs []*config.Converter
	var errs []error
	_, cerr, cstage := guarded(o.Deadline*4, func() (map[string][]byte, error) {
		var e error
		convs, errs, e = config.VerifParseEach(raw)
		return nil, e
	})
	if cstage != "ok" {
		// a failure (or panic) of the shared load: attribute it to every converter
		for i := range raws {
			st := "config"
			if cstage != "generate" {
				st = cstage
			}
			b.Outcomes = append(b.Outcomes, &ConvOutcome{Raw: raws[i], Stage: st, Err: fmt.Sprint(cerr)})
		}
		return b
	}
	for i := range raws {
		oc := &ConvOutcome{Raw: raws[i], Conv: convs[i]}
		b.Outcomes = append(b.Outcomes, oc)
		if errs[i] != nil {
			oc.Stage, oc.Err = "config", errs[i].Error()
			continue
		}
		c := convs[i]
		files, gerr, stage := guarded(o.Deadline, func() (map[string][]byte, error) {
			return generator.Generate([]*config.Converter{c}, generator.Config{BuildConstraint: o.Constraint})
		})
		oc.Stage, oc.Files = stage, files
		if gerr != nil {
			oc.Err = gerr.Error()
		}
	}
	return b
}

// Lookup finds a package-level object in the harness' own load.
func (b *Batch) Lookup(pkgPath, name string) types.Object {
	p := b.Pkgs[pkgPath]
	if p == nil || p.Types == nil {
		return nil
	}
	return p.Types.Scope().Lookup(name)
}
