// Package gvx runs goverter in process on a scratch module (one package load, one outcome per converter)
// and translates the loaded go/types information into the case language of the Lean model.
package gvx

import (
	"fmt"
	"go/constant"
	"go/types"
	"math/big"
	"sort"

	"gvh/internal/sx"
)

// Env collects the named types reachable from the translated types.
type Env struct {
	decls       map[string]*sx.Node
	order       []string
	Unsupported []string // constructs outside the modelled fragment
	seenAlias   bool
}

func NewEnv() *Env { return &Env{decls: map[string]*sx.Node{}} }

func (e *Env) unsupported(what string) {
	e.Unsupported = append(e.Unsupported, what)
}

var basicNames = map[types.BasicKind]string{
	types.Bool: "bool", types.Int: "int", types.Int8: "int8", types.Int16: "int16", types.Int32: "int32", types.Int64: "int64",
	types.Uint: "uint", types.Uint8: "uint8", types.Uint16: "uint16", types.Uint32: "uint32", types.Uint64: "uint64", types.Uintptr: "uintptr",
	types.Float32: "float32", types.Float64: "float64", types.Complex64: "complex64", types.Complex128: "complex128", types.String: "string",
	types.UnsafePointer: "unsafepointer",
}

// Ty translates a type; top-level aliases are resolved (as xtype.TypeOf does), nested aliases make the case unsupported
// because the code keys on type strings.
func (e *Env) Ty(t types.Type) *sx.Node {
	if _, ok := t.(*types.Alias); ok {
		t = types.Unalias(t)
	}
	return e.ty(t)
}

func (e *Env) ty(t types.Type) *sx.Node {
	switch x := t.(type) {
	case *types.Alias:
		e.unsupported("nested alias " + x.String())
		return e.ty(types.Unalias(x))
	case *types.Basic:
		name, ok := basicNames[x.Kind()]
		// byte and rune are identical to uint8 and int32 for Go, but the code keys its tables on the type's text
		if x.Name() == "byte" || x.Name() == "rune" {
			name = x.Name()
		}
		if !ok {
			e.unsupported("basic kind " + x.String())
			name = "invalid"
		}
		return sx.H("b", sx.A(name))
	case *types.Named:
		if x.TypeArgs().Len() > 0 || x.TypeParams().Len() > 0 {
			e.unsupported("generic type " + x.String())
			return sx.H("o", sx.A("generic"), sx.S(x.String()))
		}
		if x.Obj().Pkg() == nil {
			// universe: error, comparable
			e.declare(x)
			return sx.H("n", sx.S(x.String()))
		}
		e.declare(x)
		return sx.H("n", sx.S(x.String()))
	case *types.Pointer:
		return sx.H("p", e.ty(x.Elem()))
	case *types.Slice:
		return sx.H("s", e.ty(x.Elem()))
	case *types.Array:
		return sx.H("a", sx.I(int(x.Len())), e.ty(x.Elem()))
	case *types.Map:
		return sx.H("m", e.ty(x.Key()), e.ty(x.Elem()))
	case *types.Struct:
		n := sx.H("st")
		for i := 0; i < x.NumFields(); i++ {
			f := x.Field(i)
			pkg := ""
			if f.Pkg() != nil {
				pkg = f.Pkg().Path()
			}
			fn := sx.H("f", sx.S(f.Name()), sx.B(f.Exported()), sx.B(f.Embedded()), sx.S(pkg), e.ty(f.Type()))
			if x.Tag(i) != "" {
				fn.Add(sx.S(x.Tag(i))) // part of the type's identity
			}
			n.Add(fn)
		}
		return n
	case *types.Interface:
		return sx.H("o", sx.A("iface"), sx.S(x.String()))
	case *types.Signature:
		return e.sig(x)
	case *types.Chan:
		return sx.H("o", sx.A("chan"), sx.S(x.String()))
	case *types.TypeParam:
		e.unsupported("type parameter")
		return sx.H("o", sx.A("tparam"), sx.S(x.String()))
	case *types.Tuple:
		return sx.H("o", sx.A("tuple"), sx.S(x.String()))
	}
	e.unsupported(fmt.Sprintf("type %T", t))
	return sx.H("o", sx.A("unknown"), sx.S(t.String()))
}

func (e *Env) sig(x *types.Signature) *sx.Node {
	ps := sx.H("params")
	for i := 0; i < x.Params().Len(); i++ {
		ps.Add(sx.H("p", sx.S(x.Params().At(i).Name()), e.ty(x.Params().At(i).Type())))
	}
	rs := sx.H("results")
	for i := 0; i < x.Results().Len(); i++ {
		rs.Add(e.ty(x.Results().At(i).Type()))
	}
	return sx.H("fn", sx.S(x.String()), ps, rs, sx.B(x.TypeParams().Len() > 0), sx.B(x.Variadic()))
}

func constNode(c *types.Const, uniq *int) *sx.Node {
	v := constant.Val(c.Val())
	switch x := v.(type) {
	case int64:
		return sx.H("int", sx.A(fmt.Sprint(x)))
	case string:
		return sx.H("str", sx.S(x))
	case bool:
		return sx.H("bool", sx.B(x))
	case *big.Int, *big.Rat, *big.Float:
		// since the fix for duplicate float / large members these compare by value: equal exact strings are equal
		return sx.H("opaque", sx.I(0), sx.S(c.Val().ExactString()))
	}
	*uniq++
	return sx.H("opaque", sx.I(*uniq), sx.S(c.Val().ExactString()))
}

var uniqCounter int

func (e *Env) declare(x *types.Named) {
	id := x.String()
	if _, ok := e.decls[id]; ok {
		return
	}
	node := sx.H("named", sx.S(id))
	e.decls[id] = node // reserve (recursive types)
	e.order = append(e.order, id)
	obj := x.Obj()
	pkgPath, pkgName := "", ""
	if obj.Pkg() != nil {
		pkgPath, pkgName = obj.Pkg().Path(), obj.Pkg().Name()
	}
	node.Add(sx.S(pkgPath), sx.S(pkgName), sx.S(obj.Name()), sx.B(obj.Exported()))
	node.Add(e.ty(x.Underlying()))
	ms := sx.H("methods")
	for i := 0; i < x.NumMethods(); i++ {
		m := x.Method(i)
		sig := m.Type().(*types.Signature)
		ptrRecv := false
		if sig.Recv() != nil {
			_, ptrRecv = sig.Recv().Type().(*types.Pointer)
		}
		ms.Add(sx.H("m", sx.S(m.Name()), sx.B(m.Exported()), sx.B(ptrRecv), e.sig(sig)))
	}
	node.Add(ms)
	cs := sx.H("consts")
	if obj.Pkg() != nil {
		scope := obj.Pkg().Scope()
		names := scope.Names()
		sort.Strings(names)
		for _, name := range names {
			if c, ok := scope.Lookup(name).(*types.Const); ok && types.Identical(x, c.Type()) {
				cs.Add(sx.H("c", sx.S(name), sx.B(c.Exported()), constNode(c, &uniqCounter)))
			}
		}
	}
	node.Add(cs)
}

// Node returns (env (named ...) ...) in first-reference order.
func (e *Env) Node() *sx.Node {
	n := sx.H("env")
	for _, id := range e.order {
		n.Add(e.decls[id])
	}
	return n
}
