package gvx

import (
	"regexp"
	"sort"
	"strings"

	"github.com/jmattheis/goverter/config"
	"github.com/jmattheis/goverter/method"
	"github.com/jmattheis/goverter/xtype"

	"gvh/internal/sx"
)

// ClassifyGenErr maps a generation diagnostic to the class names of the Lean model (Gv.Gen.Diag).
func ClassifyGenErr(msg string) string {
	has := func(s string) bool { return strings.Contains(msg, s) }
	switch {
	case has("TypeMismatch: Cannot convert") && has("It is unclear how nil should be handled"):
		return "typeMismatchPtr"
	case has("TypeMismatch: Cannot convert"):
		return "typeMismatch"
	case has("Cannot match the target field with the source entry") && has("multiple matches found"):
		return "ambiguous"
	case has("Cannot match the target field with the source entry"):
		return "noMatch"
	case has("Cannot set value for unexported field"):
		return "unexportedField"
	case has("Remove or adjust field settings referencing this field"):
		return "unknownField"
	case has("Cannot access '"):
		return "cannotAccess"
	case has("Cannot find the mapped field on the source entry"):
		return "cannotFind"
	case has("is not a struct or struct pointer"):
		return "autoMapNotStruct"
	case has("Overlapping struct settings found"):
		return "overlapping"
	case has("Invalid struct field mapping on method"):
		return "invalidFieldMapping"
	case has("target type must be a pointer struct for goverter:update"):
		return "updateTargetShape"
	case has("source type must be a struct or pointer struct for goverter:update"):
		return "updateSourceShape"
	case has("Method source type mismatches with conversion source"):
		return "methodSourceMismatch"
	case has("Method return type mismatches with target"):
		return "methodTargetMismatch"
	case has("Used method returns error but conversion method does not"):
		return "errorNotReturned"
	case has("ReturnTypeMismatch: Cannot use"):
		return "delegateErrorMismatch"
	case has("Could not satisfy all required context parameters"):
		return "contextMissing"
	case has("Found custom functions(s) converting"):
		return "contextUnsatisfied"
	case has("Overlapping signatures found"):
		return "overlappingSignatures"
	case has("Enum detected but enum:unknown is not configured"):
		return "enumUnknownMissing"
	case has("Configured enum value"):
		return "enumKeyMissing"
	case has("Detected multiple enum source members with the same value"):
		return "enumMismatch"
	case has("does not exist on\n") && has("See https://goverter.jmattheis.de/guide/enum"):
		return "enumTargetMissing"
	case has("invalid target \""):
		return "enumInvalidTarget"
	case has("error executing transformer"):
		return "enumTransformerError"
	case has("did not return any mapped values"):
		return "enumTransformerEmpty"
	case has("does qualify for enum conversion but also match an extend method"):
		return "enumUnderlyingConflict"
	case has("Cannot return @error because"):
		return "enumErrorNotAllowed"
	case has("goverter:autoMap") && has("does not exist"):
		return "autoMapNotFound"
	case has("Error parsing struct method"):
		return "structMethodSig"
	case has("Cannot use different packages"):
		return "differentPackages"
	case has("while formatting source"):
		return "renderError"
	}
	return "unclassified"
}

type convTranslator struct {
	env     *Env
	customs []*method.Definition
	index   map[*method.Definition]int
}

func (t *convTranslator) custom(d *method.Definition) int {
	if d == nil {
		return -1
	}
	if i, ok := t.index[d]; ok {
		return i
	}
	t.index[d] = len(t.customs)
	t.customs = append(t.customs, d)
	return len(t.customs) - 1
}

func (t *convTranslator) args(as []method.Arg) *sx.Node {
	n := sx.H("args")
	for _, a := range as {
		n.Add(sx.H("a", sx.S(a.Name), sx.A(string(a.Use)), t.env.Ty(a.Type.T)))
	}
	return n
}

func (t *convTranslator) ctx(m map[string]*xtype.Type) *sx.Node {
	var keys []string
	for k := range m {
		keys = append(keys, k)
	}
	sort.Strings(keys)
	n := sx.H("ctx")
	for _, k := range keys {
		n.Add(t.env.Ty(m[k].T))
	}
	return n
}

func commonSx(c *config.Common) *sx.Node {
	ex := sx.H("Enum.Excludes")
	for _, p := range c.Enum.Excludes {
		ex.Add(sx.H("x", sx.S(p.Path.String()), sx.S(p.Name.String())))
	}
	return sx.H("common",
		sx.H("WrapErrors", sx.B(c.WrapErrors)), sx.H("WrapErrorsUsing", sx.S(c.WrapErrorsUsing)),
		sx.H("IgnoreUnexported", sx.B(c.IgnoreUnexported)), sx.H("IgnoreBasicZeroValueField", sx.B(c.IgnoreBasicZeroValueField)),
		sx.H("IgnoreStructZeroValueField", sx.B(c.IgnoreStructZeroValueField)), sx.H("IgnoreNillableZeroValueField", sx.B(c.IgnoreNillableZeroValueField)),
		sx.H("MatchIgnoreCase", sx.B(c.MatchIgnoreCase)), sx.H("IgnoreMissing", sx.B(c.IgnoreMissing)),
		sx.H("SkipCopySameType", sx.B(c.SkipCopySameType)), sx.H("UseZeroValueOnPointerInconsistency", sx.B(c.UseZeroValueOnPointerInconsistency)),
		sx.H("UseUnderlyingTypeMethods", sx.B(c.UseUnderlyingTypeMethods)), sx.H("DefaultUpdate", sx.B(c.DefaultUpdate)),
		sx.H("Enum.Enabled", sx.B(c.Enum.Enabled)), sx.H("Enum.Unknown", sx.S(c.Enum.Unknown)), ex)
}

// GenRequest builds the (gen ...) request of the Lean model for one successfully configured converter.
// It returns the request and the reasons (if any) why the converter is outside the modelled fragment.
func GenRequest(id int, c *config.Converter) (*sx.Node, []string) {
	t := &convTranslator{env: NewEnv(), index: map[*method.Definition]int{}}
	var unsupported []string
	conv := sx.H("conv", sx.H("outpkg", sx.S(c.OutputPackagePath)), sx.H("format", sx.A(string(c.OutputFormat))), commonSx(&c.Common))
	ext := sx.H("extend")
	for _, d := range c.Extend {
		ext.Add(sx.I(t.custom(d)))
	}
	ms := sx.H("methods")
	var rxMatch, rxRepl []*sx.Node
	for _, m := range c.Methods {
		src := sx.H("source")
		if m.Source != nil {
			src.Add(t.env.Ty(m.Source.T))
		}
		fields := sx.H("fields")
		var names []string
		for n := range m.Fields {
			names = append(names, n)
		}
		sort.Strings(names)
		for _, n := range names {
			f := m.Fields[n]
			fields.Add(sx.H("f", sx.S(n), sx.S(f.Source), sx.B(f.Ignore), sx.I(t.custom(f.Function))))
		}
		em := sx.H("enummap")
		names = names[:0]
		for n := range m.EnumMapping.Map {
			names = append(names, n)
		}
		sort.Strings(names)
		for _, n := range names {
			em.Add(sx.H("e", sx.S(n), sx.S(m.EnumMapping.Map[n])))
		}
		ts := sx.H("transformers")
		for _, tr := range m.EnumMapping.Transformers {
			ts.Add(sx.H("t", sx.S(tr.Name), sx.S(tr.Config)))
			if tr.Name != "regex" {
				unsupported = append(unsupported, "custom enum transformer")
			}
		}
		if m.TypeParams {
			unsupported = append(unsupported, "generic method")
		}
		for _, ms := range m.MultiSources {
			_ = ms
			unsupported = append(unsupported, "multi source")
		}
		ms.Add(sx.H("m", sx.H("name", sx.S(m.Name)), src, sx.H("target", t.env.Ty(m.Target.T)), t.args(m.RawArgs), t.ctx(m.Context),
			sx.H("err", sx.B(m.ReturnError)), sx.H("update", sx.B(m.UpdateTarget)), commonSx(&m.Common), fields, sx.Strs("automap", m.AutoMap), em, ts,
			sx.Strs("rawfs", m.RawFieldSettings), sx.H("ctor", sx.I(t.custom(m.Constructor)))))
	}
	// customs may reference further definitions only through the table itself
	cs := sx.H("customs")
	for i := 0; i < len(t.customs); i++ {
		d := t.customs[i]
		n := sx.H("fn", sx.H("name", sx.S(d.Name)), sx.H("pkg", sx.S(d.Package)))
		if d.Source != nil {
			n.Add(sx.H("source", t.env.Ty(d.Source.T)))
			if d.Source.Interface && !d.TypeParams {
				unsupported = append(unsupported, "custom function with interface source")
			}
		}
		n.Add(sx.H("target", t.env.Ty(d.Target.T)), t.args(d.RawArgs), t.ctx(d.Context), sx.H("err", sx.B(d.ReturnError)), sx.H("tparams", sx.B(d.TypeParams)))
		if d.TypeParams {
			unsupported = append(unsupported, "generic custom function")
		}
		cs.Add(n)
	}
	conv.Add(cs, ext, ms)
	// regexp oracles: enum excludes against every named type of the environment; transformers against every enum member
	envNode := t.env.Node()
	for _, decl := range envNode.Args() {
		pkgPath, name := decl.L[2].S, decl.L[4].S
		seen := map[string]bool{}
		addMatch := func(pat *regexp.Regexp, subj string) {
			k := pat.String() + "\x00" + subj
			if !seen[k] {
				seen[k] = true
				rxMatch = append(rxMatch, sx.H("x", sx.S(pat.String()), sx.S(subj), sx.B(pat.MatchString(subj))))
			}
		}
		commons := []*config.Common{&c.Common}
		for _, m := range c.Methods {
			commons = append(commons, &m.Common)
		}
		for _, cm := range commons {
			for _, ex := range cm.Enum.Excludes {
				addMatch(ex.Path, pkgPath)
				addMatch(ex.Name, name)
			}
		}
		consts := decl.L[8]
		for _, m := range c.Methods {
			for _, tr := range m.EnumMapping.Transformers {
				parts := strings.Split(tr.Config, " ")
				if tr.Name != "regex" || len(parts) != 2 {
					continue
				}
				pat, err := regexp.Compile(parts[0])
				for _, cn := range consts.Args() {
					member := cn.L[1].S
					if err != nil {
						rxRepl = append(rxRepl, sx.H("x", sx.S(parts[0]), sx.S(parts[1]), sx.S(member), sx.H("invalid")))
					} else {
						rxRepl = append(rxRepl, sx.H("x", sx.S(parts[0]), sx.S(parts[1]), sx.S(member), sx.S(pat.ReplaceAllString(member, parts[1]))))
					}
				}
			}
		}
	}
	or := sx.H("oracles", sx.H("rxmatch", rxMatch...), sx.H("rxrepl", rxRepl...), sx.H("assign"))
	unsupported = append(unsupported, t.env.Unsupported...)
	return sx.H("gen", sx.I(id), envNode, conv, or), unsupported
}
