package gvx

import (
	"fmt"
	"go/ast"
	"go/parser"
	"go/token"
	"os"
	"path/filepath"
	"sort"
	"strings"

	"gopkg.in/yaml.v3"

	"gvh/internal/scratch"
	"gvh/internal/sx"
)

type Scenario struct {
	Name     string
	Input    map[string]string `yaml:"input"`
	Global   []string          `yaml:"global,omitempty"`
	Patterns []string          `yaml:"patterns,omitempty"`
	Error    string            `yaml:"error,omitempty"`
}

// LoadScenarios reads the repository's scenario corpus.
func LoadScenarios(repo string) ([]*Scenario, error) {
	files, err := filepath.Glob(filepath.Join(repo, "scenario", "*.yml"))
	if err != nil {
		return nil, err
	}
	sort.Strings(files)
	var out []*Scenario
	for _, f := range files {
		b, err := os.ReadFile(f)
		if err != nil {
			return nil, err
		}
		sc := &Scenario{Name: strings.TrimSuffix(filepath.Base(f), ".yml")}
		if err := yaml.Unmarshal(b, sc); err != nil {
			return nil, fmt.Errorf("%s: %v", f, err)
		}
		out = append(out, sc)
	}
	return out, nil
}

// WriteScenario materialises a scenario as the module the repository's own test uses.
func WriteScenario(root string, sc *Scenario) error {
	t := scratch.Tree{"go.mod": "module github.com/jmattheis/goverter/execution\ngo 1.18"}
	for n, c := range sc.Input {
		t[n] = c
	}
	return scratch.Write(root, t)
}

// MethodTable extracts (name, number of parameters, returns error) of every function the emitted files define.
func MethodTable(files map[string][]byte) (*sx.Node, error) {
	type row struct {
		name   string
		params int
		err    bool
	}
	var rows []row
	addFn := func(name string, ft *ast.FuncType) {
		n := 0
		for _, f := range ft.Params.List {
			if len(f.Names) == 0 {
				n++
			} else {
				n += len(f.Names)
			}
		}
		retErr := false
		if ft.Results != nil {
			for _, f := range ft.Results.List {
				if id, ok := f.Type.(*ast.Ident); ok && id.Name == "error" {
					retErr = true
				}
			}
		}
		rows = append(rows, row{name, n, retErr})
	}
	for path, content := range files {
		f, err := parser.ParseFile(token.NewFileSet(), path, content, parser.SkipObjectResolution)
		if err != nil {
			return nil, fmt.Errorf("emitted file %s does not parse: %v", path, err)
		}
		for _, d := range f.Decls {
			fd, ok := d.(*ast.FuncDecl)
			if !ok {
				continue
			}
			if fd.Name.Name == "init" && fd.Recv == nil {
				for _, st := range fd.Body.List {
					if as, ok := st.(*ast.AssignStmt); ok && len(as.Lhs) == 1 && len(as.Rhs) == 1 {
						if fl, ok := as.Rhs[0].(*ast.FuncLit); ok {
							name := ""
							switch l := as.Lhs[0].(type) {
							case *ast.SelectorExpr:
								name = l.Sel.Name
							case *ast.Ident:
								name = l.Name
							}
							addFn(name, fl.Type)
						}
					}
				}
				continue
			}
			addFn(fd.Name.Name, fd.Type)
		}
	}
	sort.Slice(rows, func(i, j int) bool { return rows[i].name < rows[j].name })
	out := sx.H("ok")
	for _, r := range rows {
		out.Add(sx.H("method", sx.S(r.name), sx.I(r.params), sx.B(r.err)))
	}
	return out, nil
}

// ModelTable reduces a model answer `(ok (method name explicit err (args ...)) ...)` to the same shape.
func ModelTable(a *sx.Node) *sx.Node {
	if a.Head() != "ok" {
		return a
	}
	out := sx.H("ok")
	for _, m := range a.Args() {
		if m.Head() != "method" {
			continue
		}
		n := 0
		for _, r := range m.L[4].Args() {
			if r.S != "interface" || true {
				n++
			}
		}
		out.Add(sx.H("method", m.L[1], sx.I(n), m.L[3]))
	}
	return out
}

// ModelNeeds extracts (needs fmt, wrap packages) from a model answer.
func ModelNeeds(a *sx.Node) (fmtNeeded bool, wrap []string) {
	for _, m := range a.Args() {
		if m.Head() == "needs" && len(m.L) == 3 {
			fmtNeeded = m.L[1].S == "true"
			for _, w := range m.L[2].Args() {
				wrap = append(wrap, w.S)
			}
		}
	}
	return
}

// EmittedShape describes the imports and top-level declarations of emitted files.
type EmittedShape struct {
	Imports []string
	Decls   []string // kind:name, e.g. "type:ConverterImpl", "func:init", "method:Convert", "var:x"
}

func ShapeOf(files map[string][]byte) (*EmittedShape, error) {
	sh := &EmittedShape{}
	seen := map[string]bool{}
	for path, content := range files {
		f, err := parser.ParseFile(token.NewFileSet(), path, content, parser.SkipObjectResolution)
		if err != nil {
			return nil, err
		}
		for _, im := range f.Imports {
			p := strings.Trim(im.Path.Value, "\"")
			if !seen[p] {
				seen[p] = true
				sh.Imports = append(sh.Imports, p)
			}
		}
		for _, d := range f.Decls {
			switch x := d.(type) {
			case *ast.FuncDecl:
				if x.Recv != nil {
					sh.Decls = append(sh.Decls, "method:"+x.Name.Name)
				} else {
					sh.Decls = append(sh.Decls, "func:"+x.Name.Name)
				}
			case *ast.GenDecl:
				switch x.Tok {
				case token.IMPORT:
				case token.TYPE:
					for _, sp := range x.Specs {
						ts := sp.(*ast.TypeSpec)
						kind := "type-other:"
						if st, ok := ts.Type.(*ast.StructType); ok && len(st.Fields.List) == 0 {
							kind = "type-emptystruct:"
						}
						sh.Decls = append(sh.Decls, kind+ts.Name.Name)
					}
				default:
					sh.Decls = append(sh.Decls, strings.ToLower(x.Tok.String())+":")
				}
			}
		}
	}
	sort.Strings(sh.Imports)
	return sh, nil
}
