package gvx

import (
	"github.com/jmattheis/goverter/config"

	"gvh/internal/lift"
	"gvh/internal/sx"
)

// customNames collects the bare names of every custom function a converter may call
// (extend functions, map|FUNC functions, default constructors).
func customNames(c *config.Converter) map[string]bool {
	out := map[string]bool{}
	for _, d := range c.Extend {
		out[d.Name] = true
	}
	for _, m := range c.Methods {
		if m.Constructor != nil {
			out[m.Constructor.Name] = true
		}
		for _, f := range m.Fields {
			if f.Function != nil {
				out[f.Function.Name] = true
			}
		}
	}
	return out
}

// AddLifted attaches `(lifted (t NAME TERM) …)` — the emitted code of a successfully generated converter read back
// by symbolic execution — to a gen/eval request. The driver answers with a `(sym …)` entry.
func AddLifted(req *sx.Node, oc *ConvOutcome) {
	if oc == nil || oc.Stage != "ok" || oc.Conv == nil || len(oc.Files) == 0 {
		return
	}
	fns, err := lift.Functions(oc.Files, customNames(oc.Conv))
	if err != nil {
		return
	}
	l := sx.H("lifted")
	for name, t := range fns {
		l.Add(sx.H("t", sx.S(name), t))
	}
	req.Add(l)
}

// SymResult is the outcome of the plan-level comparison of one converter.
type SymResult struct {
	Equal      int
	Unliftable []string // NAME: why
	Diffs      []SymDiff
	Missing    []string
}

type SymDiff struct {
	Method string `json:"method"`
	Model  string `json:"model_term"`
	Impl   string `json:"emitted_code_term"`
}

// SymOf reads the `(sym …)` entry of a model answer (nil when the answer has none).
func SymOf(a *sx.Node) *SymResult {
	if a == nil || a.Head() != "ok" {
		return nil
	}
	for _, x := range a.Args() {
		if x.Head() != "sym" {
			continue
		}
		r := &SymResult{}
		for _, row := range x.Args() {
			switch row.Head() {
			case "eq":
				r.Equal++
			case "unlift":
				r.Unliftable = append(r.Unliftable, row.L[1].S+": "+row.L[2].String())
			case "missing":
				r.Missing = append(r.Missing, row.L[1].S)
			case "diff":
				r.Diffs = append(r.Diffs, SymDiff{row.L[1].S, row.L[2].String(), row.L[3].String()})
			}
		}
		return r
	}
	return nil
}
