package gvx

import (
	"go/types"

	"github.com/jmattheis/goverter/config"
	"github.com/jmattheis/goverter/method"
)

// ReachablePackages returns the import paths of every package owning a named type reachable from the
// signatures of the converter's methods and custom functions, plus the packages of the custom functions.
func ReachablePackages(c *config.Converter) map[string]bool {
	out := map[string]bool{}
	seen := map[types.Type]bool{}
	var walk func(t types.Type)
	walk = func(t types.Type) {
		if t == nil || seen[t] {
			return
		}
		seen[t] = true
		switch x := t.(type) {
		case *types.Alias:
			walk(types.Unalias(x))
		case *types.Named:
			if x.Obj().Pkg() != nil {
				out[x.Obj().Pkg().Path()] = true
			}
			for i := 0; i < x.TypeArgs().Len(); i++ {
				walk(x.TypeArgs().At(i))
			}
			walk(x.Underlying())
		case *types.Pointer:
			walk(x.Elem())
		case *types.Slice:
			walk(x.Elem())
		case *types.Array:
			walk(x.Elem())
		case *types.Map:
			walk(x.Key())
			walk(x.Elem())
		case *types.Chan:
			walk(x.Elem())
		case *types.Struct:
			for i := 0; i < x.NumFields(); i++ {
				walk(x.Field(i).Type())
			}
		case *types.Signature:
			for i := 0; i < x.Params().Len(); i++ {
				walk(x.Params().At(i).Type())
			}
			for i := 0; i < x.Results().Len(); i++ {
				walk(x.Results().At(i).Type())
			}
		case *types.Interface:
			for i := 0; i < x.NumEmbeddeds(); i++ {
				walk(x.EmbeddedType(i))
			}
			for i := 0; i < x.NumMethods(); i++ {
				walk(x.Method(i).Type())
			}
		case *types.Basic:
			if x.Kind() == types.UnsafePointer {
				out["unsafe"] = true
			}
		}
	}
	def := func(d *method.Definition) {
		if d == nil {
			return
		}
		if d.Package != "" && !d.Generated {
			out[d.Package] = true
		}
		for _, a := range d.RawArgs {
			walk(a.Type.T)
		}
		if d.Target != nil {
			walk(d.Target.T)
		}
	}
	for _, d := range c.Extend {
		def(d)
	}
	for _, m := range c.Methods {
		for _, a := range m.RawArgs {
			walk(a.Type.T)
		}
		if m.Target != nil {
			walk(m.Target.T)
		}
		def(m.Constructor)
		for _, f := range m.Fields {
			def(f.Function)
		}
		if c.OutputFormat == config.FormatVariable {
			out[c.Package] = true
		}
	}
	return out
}
