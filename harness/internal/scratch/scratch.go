// Package scratch creates throw-away module trees, runs the goverter binary on them and snapshots the result.
package scratch

import (
	"bytes"
	"context"
	"crypto/sha256"
	"encoding/hex"
	"io/fs"
	"os"
	"os/exec"
	"path/filepath"
	"sort"
	"strings"
	"syscall"
	"time"
)

func init() { syscall.Umask(0o022) }

// Tree maps slash-separated relative paths to file contents.
type Tree map[string]string

func Write(root string, t Tree) error {
	var paths []string
	for p := range t {
		paths = append(paths, p)
	}
	sort.Strings(paths)
	for _, p := range paths {
		full := filepath.Join(root, filepath.FromSlash(p))
		if err := os.MkdirAll(filepath.Dir(full), 0o755); err != nil {
			return err
		}
		if err := os.WriteFile(full, []byte(t[p]), 0o644); err != nil {
			return err
		}
	}
	return nil
}

type Entry struct {
	Dir  bool
	Mode fs.FileMode
	Hash string
}

// Snapshot returns every file and directory below root (relative, slash separated).
func Snapshot(root string) (map[string]Entry, error) {
	out := map[string]Entry{}
	err := filepath.WalkDir(root, func(path string, d fs.DirEntry, err error) error {
		if err != nil {
			return err
		}
		rel, _ := filepath.Rel(root, path)
		if rel == "." {
			return nil
		}
		info, err := d.Info()
		if err != nil {
			return err
		}
		e := Entry{Dir: d.IsDir(), Mode: info.Mode().Perm()}
		if !d.IsDir() {
			b, err := os.ReadFile(path)
			if err != nil {
				return err
			}
			h := sha256.Sum256(b)
			e.Hash = hex.EncodeToString(h[:8])
		}
		out[filepath.ToSlash(rel)] = e
		return nil
	})
	return out, err
}

// Diff lists paths that are new, changed or removed between two snapshots.
func Diff(before, after map[string]Entry) (created, changed, removed []string) {
	for p, a := range after {
		b, ok := before[p]
		switch {
		case !ok:
			created = append(created, p)
		case b != a:
			changed = append(changed, p)
		}
	}
	for p := range before {
		if _, ok := after[p]; !ok {
			removed = append(removed, p)
		}
	}
	sort.Strings(created)
	sort.Strings(changed)
	sort.Strings(removed)
	return
}

type Result struct {
	Exit     int
	Stdout   string
	Stderr   string
	TimedOut bool
}

func goEnv() []string {
	env := os.Environ()
	return append(env, "GOFLAGS=-mod=mod", "GOPROXY=off", "GOSUMDB=off", "GOTOOLCHAIN=local")
}

// Run executes the goverter binary.
func Run(bin, dir string, args []string, extraEnv []string, timeout time.Duration) Result {
	ctx, cancel := context.WithTimeout(context.Background(), timeout)
	defer cancel()
	cmd := exec.CommandContext(ctx, bin, args...)
	cmd.Dir = dir
	cmd.Env = append(goEnv(), extraEnv...)
	var so, se bytes.Buffer
	cmd.Stdout = &so
	cmd.Stderr = &se
	err := cmd.Run()
	r := Result{Stdout: so.String(), Stderr: se.String()}
	if ctx.Err() == context.DeadlineExceeded {
		r.TimedOut = true
		r.Exit = -1
		return r
	}
	if err != nil {
		if ee, ok := err.(*exec.ExitError); ok {
			r.Exit = ee.ExitCode()
		} else {
			r.Exit = -2
			r.Stderr += "\n" + err.Error()
		}
	}
	return r
}

// GoBuild runs `go build ./...` (or vet-less test compile) in dir.
func GoBuild(dir string, args ...string) (string, error) {
	cmd := exec.Command("go", append([]string{"build"}, args...)...)
	cmd.Dir = dir
	cmd.Env = goEnv()
	out, err := cmd.CombinedOutput()
	return string(out), err
}

// Relativise replaces the absolute root by @root in a diagnostic.
func Relativise(root, s string) string {
	if real, err := filepath.EvalSymlinks(root); err == nil && real != root {
		s = strings.ReplaceAll(s, real, "@root")
	}
	return strings.ReplaceAll(s, root, "@root")
}
